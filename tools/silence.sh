#!/bin/bash
# No-false-alarm run: the quick tier of every claimed check under several VERIF_SEED values on the unchanged library;
# every one must exit 0 without a VIOLATION line.   usage: tools/silence.sh [first-seed] [last-seed] [props...]
set -u
cd "$(dirname "$0")/.." || exit 2
a=${1:-1}; b=${2:-4}; shift 2 2>/dev/null
PROPS=${*:-C03 C07 C11 C12 C16 C17 C18}
bad=0
for s in $(seq "$a" "$b"); do
  for p in $PROPS; do
    log=$(mktemp); t0=$(date +%s)
    VERIF_SEED=$s ./check "$p" quick > "$log" 2>&1; code=$?
    if [ $code = 0 ] && ! grep -q '^VIOLATION' "$log"; then echo "seed $s $p quiet ($(( $(date +%s) - t0 )) s)"; else bad=$((bad+1)); echo "seed $s $p ALARM exit=$code"; grep -E '^VIOLATION|class=' "$log" | head -5; cp "$log" "/tmp/silence_${s}_$p.log"; fi
    rm -f "$log"
  done
done
echo "SUMMARY alarms=$bad"; [ $bad = 0 ]
