#!/bin/bash
# Applies every behaviour-preserving refactor in benign/*/patch.diff in turn and runs the quick tier of
# every claimed check (or of the listed ones): each must exit 0 without a VIOLATION line.
# usage: VERIF_REPO=<scratch checkout of the library> tools/regress_benign.sh [-p "C03 C17"] [id-prefix...]
# (never run against /repo while other work uses it; with `vp run --with-repo` use VERIF_REPO=$VP_RUN_REPO)
set -u
REPO=${VERIF_REPO:-/repo}
PROPS="C03 C07 C11 C12 C16 C17 C18"
if [ "${1:-}" = "-p" ]; then PROPS=$2; shift 2; fi
cd "$(dirname "$0")/.." || exit 2
git -C "$REPO" status --short | grep -q . && { echo "$REPO not clean"; exit 2; }
quiet=0; alarms=0; alarm_ids=""
for d in benign/*/; do
  id=$(basename "$d")
  if [ $# -gt 0 ]; then ok=0; for p in "$@"; do [[ $id == $p* ]] && ok=1; done; [ $ok = 1 ] || continue; fi
  git -C "$REPO" apply "$PWD/${d%/}/patch.diff" || { echo "$id APPLY-FAILED"; continue; }
  for prop in $PROPS; do
    log=/tmp/benign_${id}_$prop.log
    VERIF_REPO=$REPO ./check "$prop" quick > "$log" 2>&1; code=$?
    if [ $code = 0 ] && ! grep -q '^VIOLATION' "$log"; then quiet=$((quiet+1)); echo "$id $prop quiet";
    else alarms=$((alarms+1)); alarm_ids="$alarm_ids $id:$prop"; echo "$id $prop ALARM (exit $code)"; grep -m5 -E '^VIOLATION|class=|HARNESS|error' "$log";
      mkdir -p /tmp/benign_alarms; cp "$log" /tmp/benign_alarms/; cp replays/$prop-* /tmp/benign_alarms/ 2>/dev/null; fi
    rm -f "$log"
  done
  git -C "$REPO" checkout -q -- . ; git -C "$REPO" clean -fdq -- fast-tlsh/src
done
echo "SUMMARY quiet=$quiet alarms=$alarms$alarm_ids"
[ $alarms = 0 ]
