#!/bin/bash
# usage: confirm_seeded.sh <worktree> <k> [demo cargo args...]
# Confirms a seeded change independently: with the patch the existing suite passes and the demo fails;
# without the patch the demo passes.  Default demo command: cargo test --offline --test demo_<k>
set -u
WT=$1; K=$2; shift 2
export CARGO_NET_OFFLINE=true
cd "$WT" || exit 2
DD=${DEMO_DIR:-fast-tlsh/tests}; CW=${DEMO_CWD:-fast-tlsh}   # where the demo file goes / where cargo runs (serde demos: DEMO_DIR=fast-tlsh/serde-tests/tests DEMO_CWD=.)
git checkout -q -- . ; rm -rf fast-tlsh/tests "$DD/demo_$K.rs"
git apply "out/$K/patch.diff" || { echo "APPLY-FAILED"; exit 2; }
echo "== suite with change"; cargo test --workspace --no-fail-fast --offline 2>&1 | grep -E "^test result" | head -3
mkdir -p "$DD"; cp "out/$K/demo.rs" "$DD/demo_$K.rs"
if [ $# -eq 0 ]; then set -- test --offline --test "demo_$K"; fi
echo "== demo with change: cargo $*"; (cd "$CW" && cargo "$@" 2>&1 | grep -E "^test result|error(\[|:)|Undefined Behavior|panicked" | head -5)
git checkout -q -- .
echo "== demo without change"; (cd "$CW" && cargo "$@" 2>&1 | grep -E "^test result|error(\[|:)|Undefined Behavior|panicked" | head -5)
rm -rf fast-tlsh/tests "$DD/demo_$K.rs"; git status --short | grep -v '^?? out/' | head
