#!/bin/bash
# Runs the plan file (default benign/PLAN.txt, override with BENIGN_PLAN): for each line "<id> <checks...>" applies benign/<id>/patch.diff and runs those quick tiers.
# usage: VERIF_REPO=<scratch checkout> tools/run_benign_plan.sh
cd "$(dirname "$0")/.." || exit 2
bad=0
while read -r id props; do
  case "$id" in ''|'#'*) continue;; esac
  tools/regress_benign.sh -p "$props" "$id" | grep -v '^SUMMARY' ; [ "${PIPESTATUS[0]}" = 0 ] || bad=$((bad+1))
done < ${BENIGN_PLAN:-benign/PLAN.txt}
echo "PLAN-SUMMARY patches_with_alarms=$bad"; [ $bad = 0 ]
