#!/bin/bash
# usage: try_seeded.sh <patch.diff> <PROPERTY> [tier]   -- applies the change to /repo, runs the check, undoes it
set -u
P=$1; ID=$2; TIER=${3:-quick}
git -C /repo status --short | grep -q . && { echo "/repo not clean"; exit 2; }
git -C /repo apply "$P" || { echo APPLY-FAILED; exit 2; }
cd /verif && ./check "$ID" "$TIER" 2>&1 | grep -aE "VIOLATION|KNOWN-FINDING|HARNESS|class=" | cut -c1-420 | head -12
echo "exit=${PIPESTATUS[0]}"
git -C /repo checkout -q -- . ; git -C /repo status --short | head -3
