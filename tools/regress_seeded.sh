#!/bin/bash
# Re-runs every seeded change against the quick tier of the property it breaks.
# usage: VERIF_REPO=<scratch checkout of the library> tools/regress_seeded.sh [id-prefix...]
# (never run against /repo while other work uses it; with `vp run --with-repo` use VERIF_REPO=$VP_RUN_REPO)
set -u
REPO=${VERIF_REPO:-/repo}
cd "$(dirname "$0")/.." || exit 2
git -C "$REPO" status --short | grep -q . && { echo "$REPO not clean"; exit 2; }
caught=0; missed=0; missed_ids=""
for d in seeded/*/; do
  id=$(basename "$d"); prop=${id%%-*}
  if [ $# -gt 0 ]; then ok=0; for p in "$@"; do [[ $id == $p* ]] && ok=1; done; [ $ok = 1 ] || continue; fi
  git -C "$REPO" apply "$PWD/${d%/}/patch.diff" || { echo "$id APPLY-FAILED"; continue; }
  VERIF_REPO=$REPO ./check "$prop" quick > /tmp/regress_$id.log 2>&1; code=$?
  git -C "$REPO" checkout -q -- . ; git -C "$REPO" clean -fdq -- fast-tlsh/src
  if [ $code = 1 ]; then caught=$((caught+1)); echo "$id caught ($(grep -m1 -o 'class=[^ ]*' /tmp/regress_$id.log))";
  else missed=$((missed+1)); missed_ids="$missed_ids $id"; echo "$id NOT CAUGHT (exit $code)"; fi
  rm -f /tmp/regress_$id.log
done
echo "SUMMARY caught=$caught missed=$missed$missed_ids"
[ $missed = 0 ]
