#!/bin/bash
# usage: lane_seeded.sh <agent-worktree> <PROPERTY> <k>...
# One "lane" of a seeding round, safe to run next to other lanes: never touches /repo or /verif/build.
# For each delivered change k in <worktree>/out/k: confirm it (suite passes with it, demo fails with / passes without),
# then run the property's quick check from a private snapshot of /verif's HEAD against the worktree with the change applied.
# Demo command: out/k/cmd.txt (cargo args, run in <worktree>/fast-tlsh) if present, else `test --offline --test demo_k`.
set -u
WT=$1; PROP=$2; shift 2
SNAP=/tmp/vsnap_$PROP
export CARGO_NET_OFFLINE=true
[ -d "$SNAP" ] || git -C /verif worktree add -q --detach "$SNAP" HEAD || exit 2
for K in "$@"; do
  [ -f "$WT/out/$K/env.txt" ] && { set -a; . "$WT/out/$K/env.txt"; set +a; }   # DEMO_DIR / DEMO_CWD / RUSTFLAGS for the demo
  echo "##### $PROP out/$K"
  if [ -f "$WT/out/$K/cmd.txt" ]; then
    # shellcheck disable=SC2046
    (cd /verif && tools/confirm_seeded.sh "$WT" "$K" $(cat "$WT/out/$K/cmd.txt"))
  else
    (cd /verif && tools/confirm_seeded.sh "$WT" "$K")
  fi
  git -C "$WT" checkout -q -- . ; git -C "$WT" apply "$WT/out/$K/patch.diff" || { echo "APPLY-FAILED"; continue; }
  (cd "$SNAP" && VERIF_REPO=$WT ./check "$PROP" quick > "$WT/out/$K/check.log" 2>&1; echo "check exit=$?")
  grep -aE "VIOLATION|KNOWN-FINDING|HARNESS|class=" "$WT/out/$K/check.log" | cut -c1-400 | head -8
  git -C "$WT" checkout -q -- .
done
echo "##### lane $PROP done"
