#!/usr/bin/env python3
"""save_seeded.py <out-dir> <seeded-id> <property> <caught_by> <needs> <ran>  -- copies a confirmed seeded change into /verif/seeded/<id>/"""
import sys, os, shutil, json
src, sid, prop, caught, needs, ran = sys.argv[1:7]
dst = os.path.join("/verif/seeded", sid)
os.makedirs(dst, exist_ok=True)
for f in ("patch.diff", "demo.rs", "notes.md"):
    if os.path.exists(os.path.join(src, f)):
        shutil.copy(os.path.join(src, f), os.path.join(dst, f))
json.dump({"id": sid, "breaks_property": prop, "needs_to_manifest": needs, "confirmed_by_me": ran, "caught_by": caught,
           "origin": "independent sub-agent given only the property text and a scratch worktree"}, open(os.path.join(dst, "meta.json"), "w"), indent=1)
print("saved", dst)
