import json, os, shutil, subprocess, sys, time, re, glob
from concurrent.futures import ThreadPoolExecutor

DEFAULT_SEED = 20260926
NCPU = os.cpu_count() or 16

BASE_FEATURES = ["std", "easy-functions", "opt-default", "simd", "detect-features"]

# ---------------------------------------------------------------------------------------------
# build configurations ("worlds" at build granularity)
#   tlsh: feature list of the fast-tlsh dependency (default-features = false always)
#   sim:  features of the simulator crate (select scenarios / deps)
#   rustflags, profile: as named; toolchain: "" (stable) | "nightly"
# ---------------------------------------------------------------------------------------------
CONFIGS = {
    "default": dict(tlsh=BASE_FEATURES, sim=[], rustflags="", profile={}),
    # hooked builds (guard on): simulated CPU, resettable dispatch cells, state seam
    "hooked": dict(tlsh=BASE_FEATURES, sim=["hooks"], rustflags="--cfg fast_tlsh_verif"),
    "hooked_dbg": dict(tlsh=BASE_FEATURES, sim=["hooks"], rustflags="--cfg fast_tlsh_verif",
                       profile={"opt-level": 2, "debug-assertions": "true", "overflow-checks": "true"}),
    # Miri tiers (cpuid under Miri follows -C target-feature): real std::sync::OnceLock, unhooked crate
    "miri_sse2": dict(tlsh=BASE_FEATURES, sim=[], rustflags=""),
    "miri_sse41": dict(tlsh=BASE_FEATURES, sim=[], rustflags="-C target-feature=+sse4.1,+ssse3"),
    "miri_avx2": dict(tlsh=BASE_FEATURES, sim=[], rustflags="-C target-feature=+avx2"),
    # a CPU generation between the named tiers: SSSE3 but neither SSE4.1 nor AVX2 (Core 2 / early Atom)
    "miri_ssse3": dict(tlsh=BASE_FEATURES, sim=[], rustflags="-C target-feature=+ssse3"),
    "miri_unsafe_sse2": dict(tlsh=BASE_FEATURES + ["unsafe"], sim=[], rustflags=""),
    "miri_unsafe_sse41": dict(tlsh=BASE_FEATURES + ["unsafe"], sim=[], rustflags="-C target-feature=+sse4.1,+ssse3"),
    "miri_unsafe_avx2": dict(tlsh=BASE_FEATURES + ["unsafe"], sim=[], rustflags="-C target-feature=+avx2"),
    # C17 engines: debug assertions + overflow checks (native), AddressSanitizer (nightly)
    "dbg": dict(tlsh=BASE_FEATURES, sim=[], profile={"opt-level": 2, "debug-assertions": "true", "overflow-checks": "true"}),
    "dbg_unsafe": dict(tlsh=BASE_FEATURES + ["unsafe"], sim=[], profile={"opt-level": 2, "debug-assertions": "true", "overflow-checks": "true"}),
    "rel_unsafe": dict(tlsh=BASE_FEATURES + ["unsafe"], sim=[]),
    # the scalar / table-less / reduced-memory paths under debug assertions and overflow checks
    "dbg_plain": dict(tlsh=["std", "easy-functions", "opt-low-memory-buckets", "opt-low-memory-hex-str-decode-quarter-table", "opt-low-memory-hex-str-encode-half-table"],
                      sim=[], profile={"opt-level": 2, "debug-assertions": "true", "overflow-checks": "true"}),
    # debug-assertion twins of feature-gated code paths (a false invariant!() is a debug_assert! without feature unsafe)
    "dbg_embedded": dict(tlsh=["std", "easy-functions", "opt-embedded-default", "opt-low-memory-buckets", "opt-low-memory-hex-str-decode-min-table", "opt-low-memory-hex-str-encode-min-table"],
                         sim=[], profile={"opt-level": 2, "debug-assertions": "true", "overflow-checks": "true"}),
    "dbg_lowmem_simd": dict(tlsh=BASE_FEATURES + ["opt-low-memory-buckets"], sim=[], profile={"opt-level": 2, "debug-assertions": "true", "overflow-checks": "true"}),
    "dbg_bare": dict(tlsh=["std", "easy-functions"], sim=[], profile={"opt-level": 2, "debug-assertions": "true", "overflow-checks": "true"}),
    "dbg_sse41": dict(tlsh=["std", "easy-functions", "opt-default", "simd"], sim=[], rustflags="-C target-feature=+sse4.1,+ssse3",
                      profile={"opt-level": 2, "debug-assertions": "true", "overflow-checks": "true"}),
    "dbg_sse2": dict(tlsh=["std", "easy-functions", "opt-default", "simd"], sim=[], profile={"opt-level": 2, "debug-assertions": "true", "overflow-checks": "true"}),
    "rel_unsafe_lowmem": dict(tlsh=BASE_FEATURES + ["unsafe", "opt-low-memory-buckets"], sim=[]),
    # the plain `cargo build` / `cargo test` profile of the library (opt-level 0): what most callers run their own tests with
    "dev0": dict(tlsh=BASE_FEATURES, sim=[], profile={"opt-level": 0, "debug-assertions": "true", "overflow-checks": "true"}),
    "asan_unsafe": dict(tlsh=BASE_FEATURES + ["unsafe"], sim=[], toolchain="nightly", rustflags="-Zsanitizer=address",
                        target="x86_64-unknown-linux-gnu", profile={"opt-level": 2, "debug-assertions": "true"}),
    "asan": dict(tlsh=BASE_FEATURES, sim=[], toolchain="nightly", rustflags="-Zsanitizer=address",
                 target="x86_64-unknown-linux-gnu", profile={"opt-level": 2, "debug-assertions": "true"}),
    "miri_unsafe_lowmem": dict(tlsh=BASE_FEATURES + ["unsafe", "opt-low-memory-buckets"], sim=[], rustflags=""),
    "miri_unsafe_serde": dict(tlsh=BASE_FEATURES + ["unsafe", "serde", "strict-parser"], sim=["serde"], rustflags=""),
    # low-memory / table-less build for scenarios that otherwise only see the default features (C03, C12)
    "lowmem": dict(tlsh=["std", "easy-functions", "opt-embedded-default", "opt-low-memory-buckets", "opt-low-memory-hex-str-decode-min-table",
                         "opt-low-memory-hex-str-encode-min-table"], sim=[]),
    "hooked_lowmem": dict(tlsh=BASE_FEATURES + ["opt-low-memory-buckets"], sim=["hooks"], rustflags="--cfg fast_tlsh_verif"),
    "dbg_serde": dict(tlsh=BASE_FEATURES + ["serde", "serde-buffered", "strict-parser", "unsafe"], sim=["serde"],
                      profile={"opt-level": 2, "debug-assertions": "true", "overflow-checks": "true"}),
    # C18: the simulator owns the global allocator
    "alloc_default": dict(tlsh=BASE_FEATURES, sim=["alloc_world"]),
    "alloc_plain": dict(tlsh=["std", "easy-functions"], sim=["alloc_world"]),
    "alloc_embedded": dict(tlsh=["std", "easy-functions", "opt-embedded-default", "opt-low-memory-buckets"], sim=["alloc_world"]),
    "alloc_dbg": dict(tlsh=BASE_FEATURES, sim=["alloc_world"], profile={"opt-level": 2, "debug-assertions": "true", "overflow-checks": "true"}),
    # statically selected CPU tiers (the SSSE3 / SSE4.1 and SSE2 kernels never run on this AVX2 host otherwise)
    "alloc_sse41": dict(tlsh=["std", "easy-functions", "opt-default", "simd"], sim=["alloc_world"], rustflags="-C target-feature=+sse4.1,+ssse3"),
    "alloc_sse2": dict(tlsh=["std", "easy-functions", "opt-default", "simd"], sim=["alloc_world"]),
    "alloc_unsafe_minhex": dict(tlsh=BASE_FEATURES + ["unsafe", "opt-low-memory-hex-str-decode-min-table", "opt-low-memory-hex-str-encode-min-table"], sim=["alloc_world"]),
    # shuttle build: shadow manifest adds the shuttle dependency to fast-tlsh itself
    "shuttle": dict(tlsh=BASE_FEATURES, sim=["hooks", "shuttle"], rustflags="--cfg fast_tlsh_verif --cfg fast_tlsh_verif_shuttle",
                    shadow=['shuttle = "0.9.3"']),
    "dbg_serde_safe": dict(tlsh=BASE_FEATURES + ["serde", "serde-buffered", "strict-parser"], sim=["serde"],
                           profile={"opt-level": 2, "debug-assertions": "true", "overflow-checks": "true"}),
    # ... and the debug profile with the LENIENT parser (round 10): values with impossible length codes / checksums exist only here
    "dbg_serde_lenient": dict(tlsh=BASE_FEATURES + ["serde"], sim=["serde"],
                              profile={"opt-level": 1, "debug-assertions": "true", "overflow-checks": "true"}),
    # serde without this crate's std/alloc features (what an embedded user builds), incl. serde-buffered
    "serde_noalloc": dict(tlsh=["easy-functions", "serde", "serde-buffered"], sim=["serde", "nostd"]),
    # C16: the four serde feature sets
    "serde": dict(tlsh=BASE_FEATURES + ["serde"], sim=["serde"]),
    "serde_strict": dict(tlsh=BASE_FEATURES + ["serde", "strict-parser"], sim=["serde"]),
    "serde_buf": dict(tlsh=BASE_FEATURES + ["serde", "serde-buffered"], sim=["serde"]),
    "serde_buf_strict": dict(tlsh=BASE_FEATURES + ["serde", "serde-buffered", "strict-parser"], sim=["serde"]),
    "serde_unsafe": dict(tlsh=BASE_FEATURES + ["serde", "unsafe"], sim=["serde"]),
    "serde_plain": dict(tlsh=["std", "easy-functions", "serde", "serde-buffered"], sim=["serde"]),
    "serde_all": dict(tlsh=BASE_FEATURES + ["serde", "serde-buffered", "strict-parser", "unsafe"], sim=["serde"]),
}


class HarnessError(Exception):
    pass


# VERIF_THOROUGH_SCALE (default 1): scales the *volume* of the thorough tier only (e.g. 0.01 = a smoke run that walks every
# thorough-only code path in minutes).  It never changes the quick tier.
TSCALE = float(os.environ.get("VERIF_THOROUGH_SCALE", "1"))


def T(n):
    return max(1, int(n * TSCALE))


class Ctx:
    def __init__(self, verif):
        self.verif = verif
        self.repo = os.environ.get("VERIF_REPO", "/repo")
        self.build_root = os.path.join(verif, "build")
        self.t0 = time.time()

    def log(self, *a):
        print("[check]", *a, file=sys.stderr, flush=True)


def cargo_env(extra=None):
    env = dict(os.environ)
    env["CARGO_NET_OFFLINE"] = "true"
    env.pop("RUSTFLAGS", None)
    env.pop("CARGO_TARGET_DIR", None)
    if extra:
        env.update(extra)
    return env


def manifest_text(ctx, key, cfg):
    tl = ", ".join('"%s"' % f for f in cfg["tlsh"])
    simf = cfg.get("sim", [])
    deps = ['tlsh = { package = "fast-tlsh", path = "%s/fast-tlsh", default-features = false, features = [%s] }' % (ctx.repo, tl),
            'serde_json = "1.0.138"']
    if "serde" in simf:
        deps += ['serde = { version = "1.0.217" }',
                 'ciborium = "0.2.2"',
                 'postcard = { version = "1.1.1", features = ["alloc", "use-std"] }']
    if "shuttle" in simf:
        deps += ['shuttle = "0.9.3"']
    prof = {"opt-level": 3, "debug": "false", "codegen-units": 16, "panic": '"unwind"'}
    prof.update(cfg.get("profile", {}))
    prof_s = "\n".join("%s = %s" % (k, v) for k, v in prof.items())
    feats = "\n".join('%s = []' % f for f in sorted(set(simf + ["nostd", "serde", "shuttle", "hooks", "alloc_world"])))
    return """# generated by /verif/check for configuration %s -- do not edit
[package]
name = "tlsh-dst"
version = "0.0.0"
edition = "2021"

[workspace]

[[bin]]
name = "sim"
path = "%s/sim/src/main.rs"

[dependencies]
%s

[features]
default = [%s]
%s

[profile.release]
%s
""" % (key, ctx.verif, "\n".join(deps), ", ".join('"%s"' % f for f in simf), feats, prof_s)


def shadow_manifest(ctx, d, extra_deps):
    """A shadow manifest of fast-tlsh: same package name, same sources (lib path / build script point into
    the repository), plus extra dependencies.  /repo's Cargo.toml and Cargo.lock stay untouched."""
    src = open(os.path.join(ctx.repo, "fast-tlsh", "Cargo.toml")).read()
    out = []
    section = None
    skip = False
    for line in src.splitlines():
        m = re.match(r"^\[+([^\]]+)\]+", line)
        if m:
            section = m.group(1)
            skip = section in ("dev-dependencies", "example", "package.metadata.docs.rs")
            if section == "dependencies":
                out.append(line)
                out.extend(extra_deps)
                continue
        if skip:
            continue
        if section == "package" and re.match(r"^(workspace|readme)\s*=", line):
            continue
        out.append(line)
        if section == "package" and line.startswith("name ="):
            out.append('build = "%s/fast-tlsh/build.rs"' % ctx.repo)
        if section == "lib" and line.startswith("name ="):
            out.append('path = "%s/fast-tlsh/src/lib.rs"' % ctx.repo)
    sd = os.path.join(d, "shadow")
    os.makedirs(sd, exist_ok=True)
    text = "# generated shadow manifest -- do not edit\n" + "\n".join(out) + "\n"
    p = os.path.join(sd, "Cargo.toml")
    if not os.path.exists(p) or open(p).read() != text:
        open(p, "w").write(text)
    return sd


def prepare(ctx, key):
    """Writes the generated manifest (and lock file) of configuration `key`; returns (dir, manifest path)."""
    cfg = CONFIGS[key]
    d = os.path.join(ctx.build_root, key)
    crate = os.path.join(d, "crate")
    os.makedirs(crate, exist_ok=True)
    mpath = os.path.join(crate, "Cargo.toml")
    text = manifest_text(ctx, key, cfg)
    if cfg.get("shadow"):
        sd = shadow_manifest(ctx, d, cfg["shadow"])
        text = text.replace('path = "%s/fast-tlsh"' % ctx.repo, 'path = "%s"' % sd)
    old = open(mpath).read() if os.path.exists(mpath) else None
    if old != text:
        open(mpath, "w").write(text)
    lock = os.path.join(crate, "Cargo.lock")
    if not os.path.exists(lock):
        shutil.copy(os.path.join(ctx.repo, "Cargo.lock"), lock)
    return d, mpath


def build(ctx, key):
    """Builds configuration `key` from the current working tree of ctx.repo. Returns the sim binary path."""
    cfg = CONFIGS[key]
    d, mpath = prepare(ctx, key)
    target = os.path.join(d, "target")
    env = cargo_env({"CARGO_TARGET_DIR": target})
    if cfg.get("rustflags"):
        env["RUSTFLAGS"] = cfg["rustflags"]
    cmd = ["cargo"]
    if cfg.get("toolchain"):
        cmd.append("+" + cfg["toolchain"])
    cmd += ["build", "--release", "--offline", "--quiet", "--manifest-path", mpath]
    if cfg.get("target"):
        cmd += ["--target", cfg["target"]]
    t = time.time()
    p = subprocess.run(cmd, env=env, stdout=subprocess.PIPE, stderr=subprocess.STDOUT, text=True, errors="replace")
    if p.returncode != 0:
        sys.stderr.write(p.stdout[-6000:])
        raise HarnessError("build of configuration %s failed" % key)
    ctx.log("built %s in %.1fs" % (key, time.time() - t))
    sub = os.path.join(cfg["target"], "release") if cfg.get("target") else "release"
    return os.path.join(target, sub, "sim")


def miri_run(ctx, key, sim_args, many_seeds=None, timeout=3600):
    """Runs the simulator of configuration `key` under Miri (nightly). Returns (exit code, stdout, stderr).
    Seeds and modes travel in argv only (cargo-miri replays build-time env)."""
    cfg = CONFIGS[key]
    d, mpath = prepare(ctx, key)
    flags = ["-Zmiri-preemption-rate=0.1"]
    if many_seeds:
        flags.append("-Zmiri-many-seeds=0..%d" % many_seeds)
    flags += cfg.get("miriflags", [])
    env = cargo_env({"CARGO_TARGET_DIR": os.path.join(d, "target-miri"), "MIRIFLAGS": " ".join(flags)})
    if cfg.get("rustflags"):
        env["RUSTFLAGS"] = cfg["rustflags"]
    cmd = ["cargo", "+nightly", "miri", "run", "--offline", "--quiet", "--manifest-path", mpath, "--"] + [str(a) for a in sim_args]
    t = time.time()
    try:
        p = subprocess.run(cmd, env=env, stdout=subprocess.PIPE, stderr=subprocess.PIPE, text=True, errors="replace", timeout=timeout)
    except subprocess.TimeoutExpired:
        raise HarnessError("Miri run of %s timed out" % key)
    ctx.log("miri %s %s: exit %d in %.1fs" % (key, " ".join(map(str, sim_args[:2])), p.returncode, time.time() - t))
    return p.returncode, p.stdout, p.stderr


def try_build(ctx, key):
    """build(), but a configuration that does not compile yields None (the caller degrades and says so)."""
    try:
        return build(ctx, key)
    except HarnessError as e:
        ctx.log("WARNING: %s -- continuing with reduced coverage" % e)
        return None


def build_many(ctx, keys):
    keys = list(dict.fromkeys(keys))
    with ThreadPoolExecutor(max_workers=min(len(keys), 8)) as ex:
        return dict(zip(keys, ex.map(lambda k: build(ctx, k), keys)))


def run_sim(ctx, binary, args, timeout=7200, env=None, allow_abort=False):
    """Runs the simulator; returns (exit code, parsed JSON or None, stderr text).  A run that exceeds `timeout`
    is a harness error (exit 2), never a verdict -- e.g. a tree whose dispatch blocks on a std primitive the
    shuttle scheduler cannot see."""
    try:
        p = subprocess.run([binary] + [str(a) for a in args], stdout=subprocess.PIPE, stderr=subprocess.PIPE, text=True, errors="replace",
                           timeout=timeout, env=env)
    except subprocess.TimeoutExpired:
        raise HarnessError("simulator did not finish within %ds: %s %s" % (timeout, binary, " ".join(map(str, args))))
    rep = None
    out = p.stdout.strip().splitlines()
    if out:
        try:
            rep = json.loads(out[-1])
        except Exception:
            rep = None
    if p.returncode not in (0, 1) and not allow_abort:
        sys.stderr.write(p.stderr[-4000:])
        raise HarnessError("simulator exited with %s: %s %s" % (p.returncode, binary, " ".join(map(str, args))))
    if p.returncode in (0, 1) and rep is None:
        sys.stderr.write(p.stderr[-4000:])
        raise HarnessError("simulator printed no report")
    return p.returncode, rep, p.stderr


def run_or_death(ctx, binary, args, env=None):
    """Runs a one-off simulator job (a real multi-GiB stream, a file batch, ...) and returns its report.  If the process
    dies instead (signal, abort, stack overflow, illegal instruction), that is a finding about the code under test, not a
    harness error: a synthetic report carrying one `native-abort` violation (replayed by re-running the same argv)."""
    code, rep, err = run_sim(ctx, binary, args, allow_abort=True, env=env)
    if code in (0, 1) and rep is not None:
        return rep
    msg = [l for l in err.splitlines() if l.strip()]
    sig = {-11: "SIGSEGV", -6: "SIGABRT", -4: "SIGILL", -7: "SIGBUS", 134: "SIGABRT", 101: "panic outside the guarded call"}.get(code, "exit %s" % code)
    argv = [str(a) for a in args]
    return {"scenario": argv[0], "seed": "0", "evaluations": 1, "distinct": 1, "distinct_nontrivial": 1, "counters": {}, "samples": [], "violation_count": 1,
            "rule": "one-off job that died", "wall_s": 0,
            "violations": [{"index": 0, "class": "native-abort:%s %s" % (argv[0], sig), "engine": "native-abort", "argv": argv,
                            "detail": "the simulator process died (%s) while running `%s`: %s" % (sig, " ".join(argv), " | ".join(msg[-5:])[:600]),
                            "history": {"argv": argv}}]}


# ---------------------------------------------------------------------------------------------
# known findings
# ---------------------------------------------------------------------------------------------
def load_known(ctx):
    """finding: property=C12 class=<class> <text>   (suppresses exactly that class, prints KNOWN-FINDING)
       fixed:   property=C12 <commit> <text>         (suppresses nothing)"""
    out = []
    p = os.path.join(ctx.verif, "known_findings.txt")
    if os.path.exists(p):
        for line in open(p):
            line = line.strip()
            m = re.match(r"finding:\s+property=(\S+)\s+class=(\S+)\s*(.*)", line)
            if m:
                out.append((m.group(1), m.group(2), m.group(3)))
    return out


class Verdict:
    """Collects sim reports for one property and turns them into evidence + exit code."""

    def __init__(self, ctx, pid, tier, seed, level):
        self.ctx, self.pid, self.tier, self.seed, self.level = ctx, pid, tier, seed, level
        self.reports = []      # (config, report)
        self.violations = []   # (config, scenario, violation dict)
        self.known_hits = []
        self.extra = {}
        self.assumptions = []
        self.t0 = time.time()

    def add(self, config, rep):
        self.reports.append((config, rep))
        for v in rep.get("violations", []):
            self.violations.append((config, rep["scenario"], v, rep))

    def add_violation(self, config, scenario, v):
        """A violation found by something other than `sim batch` (e.g. Miri, build matrix)."""
        self.violations.append((config, scenario, v, {"seed": str(self.seed)}))

    def finish(self):
        ctx = self.ctx
        known = load_known(ctx)
        os.makedirs(os.path.join(ctx.verif, "replays"), exist_ok=True)
        os.makedirs(os.path.join(ctx.verif, "evidence"), exist_ok=True)
        new = []
        printed_known = set()
        seen_cls = set()
        self.violations.sort(key=lambda t: (t[0], t[1], t[2].get("index") or 0))
        for config, scenario, v, rep in self.violations:
            if (config, scenario, v["class"]) in seen_cls:
                continue  # one replay per (build, scenario, violation class): the one with the lowest run index
            seen_cls.add((config, scenario, v["class"]))
            k = [kf for kf in known if kf[0] == self.pid and kf[1] == v["class"]]
            if k:
                if (self.pid, v["class"]) not in printed_known:
                    print("KNOWN-FINDING: property=%s class=%s %s" % (self.pid, v["class"], k[0][2]), flush=True)
                    printed_known.add((self.pid, v["class"]))
                self.known_hits.append(v["class"])
                continue
            name = "%s-%s-%s-%s-%s.json" % (self.pid, config, scenario, rep.get("seed", self.seed), v.get("index", 0))
            path = os.path.join(ctx.verif, "replays", name)
            doc = {"property": self.pid, "scenario": scenario, "config": config, "seed": rep.get("seed", str(self.seed)),
                   "index": v.get("index"), "history": v.get("history"), "violation": {"class": v["class"], "detail": v["detail"]},
                   "original_history": v.get("original_history"), "shrink_steps": v.get("shrink_steps")}
            base_cfg = config.split("+")[0]
            if base_cfg.startswith(("dbg_rand_", "m_rand_")) and base_cfg in CONFIGS:
                doc["config_def"] = CONFIGS[base_cfg]   # a per-run random build: the replay file carries its definition
            for extra_key in ("engine", "argv", "miri_seed", "schedule", "rustflags", "env", "range_argv"):
                if extra_key in v:
                    doc[extra_key] = v[extra_key]
            json.dump(doc, open(path, "w"), indent=1)
            # replaying the minimised file in a fresh process must reproduce the same violation class
            if not doc.get("engine") and doc.get("history") is not None and config.split("+")[0] in CONFIGS:
                try:
                    b = os.path.join(ctx.build_root, config.split("+")[0], CONFIGS[config.split("+")[0]].get("target", ""), "target" if False else "")
                    binary = build(ctx, config.split("+")[0])
                    code, rrep, _ = run_sim(ctx, binary, ["replay", path] + (["--alloc-hard-fail"] if config.endswith("+allocfail") else []), allow_abort=True)
                    doc["replay_verified"] = bool(code == 1 and rrep and rrep.get("violation") and rrep["violation"]["class"] == v["class"]) or (code not in (0, 1))
                    if not doc["replay_verified"] and doc.get("range_argv"):
                        doc["replay_verified_by_range"] = range_reproduces(ctx, binary, doc)
                except HarnessError:
                    doc["replay_verified"] = False
                json.dump(doc, open(path, "w"), indent=1)
            new.append((path, v))
        # evidence
        ev = self.evidence(len(new))
        json.dump(ev, open(os.path.join(ctx.verif, "evidence", self.pid + ".json"), "w"), indent=1)
        # a copy per tier, so that the evidence of the last thorough run survives later quick runs
        os.makedirs(os.path.join(ctx.verif, "evidence", "by-tier"), exist_ok=True)
        json.dump(ev, open(os.path.join(ctx.verif, "evidence", "by-tier", "%s.%s.json" % (self.pid, self.tier)), "w"), indent=1)
        for path, v in new:
            print("VIOLATION property=%s replay=%s" % (self.pid, path), flush=True)
            print("  class=%s detail=%s" % (v["class"], v["detail"][:400]), flush=True)
            try:
                d = json.load(open(path))
                rv = d.get("replay_verified")
                if rv is not None:
                    print("  replay of the minimised history in a fresh process reproduces it: %s" % rv, flush=True)
                if d.get("replay_verified_by_range") is not None:
                    print("  (the violation depends on state left in the process by earlier runs) re-running the recorded index range in a fresh single-threaded process reproduces it: %s" % d["replay_verified_by_range"], flush=True)
            except Exception:
                pass
        return 1 if new else 0

    def evidence(self, nviol):
        evaluations = 0
        distinct_nt = 0
        counters = {}
        samples = []
        rules = []
        per = []
        states = 0
        for config, rep in self.reports:
            evaluations += int(rep.get("evaluations", 0))
            distinct_nt += int(rep.get("distinct_nontrivial", 0))
            states += int(rep.get("distinct_states", 0))
            for k, n in rep.get("counters", {}).items():
                counters[k] = counters.get(k, 0) + n
            for s in rep.get("samples", [])[:2]:
                samples.append({"config": config, "scenario": rep["scenario"], **s})
            if rep.get("rule") and rep["rule"] not in rules:
                rules.append(rep["rule"])
            per.append({"config": config, "scenario": rep["scenario"], "evaluations": rep.get("evaluations"),
                        "distinct": rep.get("distinct"), "distinct_nontrivial": rep.get("distinct_nontrivial"),
                        "distinct_states": rep.get("distinct_states"), "wall_s": rep.get("wall_s"),
                        "log_digest": rep.get("log_digest"), "violation_count": rep.get("violation_count", 0)})
        keysets = {}
        for config, rep in self.reports:
            if rep.get("state_keys"):
                keysets.setdefault(rep["scenario"], set()).update(rep["state_keys"])
        if keysets:
            states = sum(len(v) for v in keysets.values()) + sum(int(rep.get("distinct_states", 0)) for _, rep in self.reports if not rep.get("state_keys") and rep.get("distinct_states", 0) > 4096)
        wall = time.time() - self.t0
        cov = {
            "evaluations": evaluations,
            "distinct_nontrivial": distinct_nt,
            "rule": " || ".join(rules),
            "samples": samples[:8],
            "runs_per_hour": int(evaluations / wall * 3600) if wall > 0 else 0,
            "fault_counts": {k: v for k, v in sorted(counters.items()) if k.startswith("fault.")},
            "probes": {k: v for k, v in sorted(counters.items()) if k.startswith("probe.")},
            "counters": {k: v for k, v in sorted(counters.items()) if not k.startswith(("fault.", "probe."))},
            "distinct_states": states,
            "batches": per,
            "known_findings_hit": sorted(set(self.known_hits)),
        }
        if self.tier != "quick" and TSCALE != 1:
            cov["thorough_volume_scale"] = TSCALE   # VERIF_THOROUGH_SCALE was set: this is not the full-volume thorough tier
        cov.update(self.extra)
        return {"property_id": self.pid, "tier": self.tier, "seed": self.seed, "level": self.level, "coverage": cov,
                "assumptions": self.assumptions, "wall_s": round(wall, 2), "violations": nviol}


def range_reproduces(ctx, binary, doc):
    """Re-runs the recorded index range (single-threaded, fresh process); True if the same run fails with the same class."""
    code, rep, _ = run_sim(ctx, binary, doc["range_argv"] + ["--max-report", 1000000, "--shrink-budget", 0], allow_abort=True)
    if code not in (0, 1):
        return True
    return any(v.get("index") == doc.get("index") and v.get("class") == doc["violation"]["class"] for v in (rep or {}).get("violations", []))


def sim_batch(ctx, vd, config, binary, scenario, count, threads=NCPU, start=0, extra=(), abort_fallback=True):
    t = time.time()
    code, rep, err = run_sim(ctx, binary, ["batch", scenario, "--seed", vd.seed, "--start", start, "--count", count,
                                           "--threads", threads] + list(extra), allow_abort=abort_fallback)
    if code not in (0, 1):
        # the simulator process died (undefined behaviour reaching the harness, an abort, a signal): that is a finding about the
        # code under test, not a harness error -- re-run the range as single-threaded processes that record their progress,
        # which turns the death into a localised, replayable violation
        ctx.log("%s/%s: the multi-threaded batch died (exit %s); re-running as single-threaded processes to localise" % (config, scenario, code))
        return sim_batch_procs(ctx, vd, config, binary, scenario, count, extra=extra, abort_engine="native-abort")
    ctx.log("%s/%s: %d runs in %.1fs, %d violations" % (config, scenario, count, time.time() - t, rep.get("violation_count", 0)))
    vd.add(config, rep)
    return rep


def sim_batch_procs(ctx, vd, config, binary, scenario, count, procs=NCPU, extra=(), abort_engine=None, env=None):
    """Like sim_batch, but as `procs` single-threaded processes over disjoint index ranges
    (for scenarios that own process-global state: CPU mask, dispatch epoch, allocator -- or whose
    failure mode is a process abort: with abort_engine set, an abnormal exit is a violation and the
    run that was executing is identified through the progress file)."""
    per = (count + procs - 1) // procs
    t = time.time()
    tmp = os.path.join(ctx.build_root, config, "progress-" + scenario)
    os.makedirs(tmp, exist_ok=True)
    def one(i):
        lo = i * per
        n = max(0, min(per, count - lo))
        if n == 0:
            return None
        args = ["batch", scenario, "--seed", vd.seed, "--start", lo, "--count", n, "--threads", 1] + list(extra)
        pf = os.path.join(tmp, "p%d" % i)
        if abort_engine:
            args += ["--progress-file", pf]
        code, rep, err = run_sim(ctx, binary, args, allow_abort=bool(abort_engine), env=env)
        if code not in (0, 1):
            idx = int(open(pf).read() or lo) if os.path.exists(pf) else lo
            hist = subprocess.run([binary, "history", scenario, "--seed", str(vd.seed), "--index", str(idx)] + [a for a in extra if a == "--small"],
                                  stdout=subprocess.PIPE, text=True, errors="replace", env=env).stdout.strip()
            msg = [l for l in err.splitlines() if l.strip()]
            key = next((l for l in msg if "ERROR: AddressSanitizer" in l or "unsafe precondition" in l or "panicked" in l or "SIG" in l), msg[-1] if msg else "")
            key = {-11: "SIGSEGV ", -6: "SIGABRT ", -4: "SIGILL ", -7: "SIGBUS "}.get(code, "") + key
            return {"scenario": scenario, "seed": str(vd.seed), "evaluations": max(0, idx - lo), "violation_count": 1,
                    "violations": [{"index": idx, "class": "%s:%s" % (abort_engine, re.sub(r"[0-9a-fx]{6,}|\d+", "", key)[:80].strip()), "engine": abort_engine,
                                    "detail": "process died (exit %s) while executing run %d: %s" % (code, idx, " | ".join(msg[-6:])[:700]),
                                    "history": json.loads(hist) if hist else None, "argv": [str(a) for a in ["batch", scenario, "--seed", vd.seed, "--start", lo, "--count", idx - lo + 1, "--threads", 1] + list(extra)]}]}
        for v in (rep or {}).get("violations", []):
            if not v.get("engine") and v.get("index") is not None:
                # a single-threaded process is a deterministic function of (seed, first index): re-running the range up to
                # the failing run reproduces violations that depend on process-wide state left by earlier runs
                v["range_argv"] = [str(a) for a in ["batch", scenario, "--seed", vd.seed, "--start", lo, "--count", int(v["index"]) - lo + 1, "--threads", 1] + list(extra)]
        return rep
    with ThreadPoolExecutor(max_workers=procs) as ex:
        reps = [r for r in ex.map(one, range(procs)) if r]
    for r in reps:
        vd.add(config, r)
    ctx.log("%s/%s: %d runs in %d processes, %.1fs, %d violations" % (config, scenario, count, len(reps), time.time() - t,
                                                                     sum(r.get("violation_count", 0) for r in reps)))
    return reps


# ---------------------------------------------------------------------------------------------
# properties
# ---------------------------------------------------------------------------------------------
def strace_eintr(ctx, vd, binary, scratch):
    """The real kernel path of hash_file with faults injected into counted real syscalls (deterministic: the N-th call):
    EINTR into the N-th read(2) and into runs of consecutive reads (the result must equal the un-injected one), EIO into
    the N-th read(2) and EACCES into openat(2) (the result must be that I/O error, never a hash)."""
    if not shutil.which("strace"):
        vd.extra["strace"] = "strace not available: real-syscall fault injection skipped"
        return
    path = os.path.join(scratch, "strace-target.bin")
    import random
    rnd = random.Random(vd.seed)
    size = 3 * (1 << 20) + 11 + rnd.randrange(0, 5000)
    open(path, "wb").write(rnd.randbytes(size))
    base = subprocess.run([binary, "hashfile-one", "--path", path], stdout=subprocess.PIPE, text=True, errors="replace").stdout.strip()
    if not base.startswith("T1"):
        raise HarnessError("strace: hashfile-one without injection printed `%s`" % base[:200])
    fired = {"eintr": 0, "eintr_burst": 0, "eio": 0, "eacces_open": 0}
    checks = 0
    nviol = 0
    cases = [("eintr", "read", "inject=read:error=EINTR:when=%d" % n, None) for n in range(1, 7)]
    cases += [("eintr_burst", "read", "inject=read:error=EINTR:when=%d..%d" % (a, b), None) for a, b in ((1, 3), (2, 40), (4, 5), (1, 200))]
    cases += [("eio", "read", "inject=read:error=EIO:when=%d" % n, "os=Some(5)") for n in range(1, 6)]
    cases += [("eacces_open", "openat", "inject=openat:error=EACCES", "os=Some(13)")]
    for kind, sysc, inject, want_err in cases:
        log = os.path.join(scratch, "strace.log")
        if os.path.exists(log):
            os.remove(log)
        p = subprocess.run(["strace", "-o", log, "-P", path, "-e", "trace=" + sysc, "-e", inject,
                            binary, "hashfile-one", "--path", path], stdout=subprocess.PIPE, stderr=subprocess.PIPE, text=True, errors="replace")
        inj = open(log).read().count("(INJECTED)") if os.path.exists(log) else 0
        if p.returncode != 0 and inj == 0 and "ptrace" in p.stderr.lower():
            vd.extra["strace"] = "ptrace not permitted here: real-syscall fault injection skipped"
            return
        checks += 1
        if not inj:
            continue        # the file was read in fewer calls than N: nothing happened, nothing to judge
        fired[kind] += inj
        got = p.stdout.strip()
        if p.returncode != 0:
            bad = "the process died (exit %s): %s" % (p.returncode, p.stderr[-200:])
        elif want_err is None:
            bad = None if got == base else "hash_file printed `%s`, without injection `%s`" % (got, base)
        else:
            bad = None if (got.startswith("IOError(") and want_err in got) else "hash_file printed `%s`, expected an I/O error carrying %s" % (got, want_err)
        if bad:
            nviol += 1
            vd.add_violation("default", "c12strace", {"class": "real-syscall-fault-%s" % kind, "index": checks, "engine": "strace",
                                                       "detail": "%s into the real syscalls of hash_file on a %d-byte file: %s" % (inject, size, bad),
                                                       "history": {"inject": inject, "syscall": sysc, "file_bytes": size, "file_seed": vd.seed},
                                                       "argv": ["strace", "-P", "<file>", "-e", inject, "sim", "hashfile-one"]})
    os.remove(path)
    vd.reports.append(("default", {"scenario": "c12strace", "evaluations": checks, "distinct": checks, "distinct_nontrivial": checks,
                                   "rule": "strace: one evaluation = hash_file on a real 3 MiB + k file with one fault injected into counted real syscalls: EINTR into read #N (N = 1..6) and into runs of up to 200 consecutive reads, EIO into read #N (N = 1..5), EACCES into openat",
                                   "counters": {"fault.eintr_real_syscall": fired["eintr"] + fired["eintr_burst"], "fault.eintr_real_syscall_bursts": fired["eintr_burst"],
                                                "fault.eio_real_syscall": fired["eio"], "fault.eacces_real_openat": fired["eacces_open"]},
                                   "samples": [{"cases": [c[2] for c in cases]}], "violation_count": nviol, "wall_s": 0}))
    ctx.log("strace: %d runs, injected faults fired %s, %d violations" % (checks, fired, nviol))


def c12_alloc_faults(ctx, vd, binary, scratch, quick):
    """Allocation failure as a fault of the stream/file helpers: one scenario per process (a refused allocation normally
    aborts).  Accepted outcomes: abort, the right result, an I/O error.  A *wrong* result is a violation."""
    cases = [(api, ms, skip) for api in (5, 0, 3, 6) for ms in (1 << 20, 1 << 16, 4096, 1) for skip in ((0, 1) if quick else (0, 1, 2, 3))]
    # a legal but unusual allocator (round 10): nothing is refused (min-size 2^60), byte buffers sit at addresses 1 mod 16;
    # one stream shorter and one longer than the helper's buffer
    cases += [(api, 1 << 60, sk) for api in (5, 1, 4, 6) for sk in (0, 1)]
    t = time.time()
    def one(c):
        api, ms, skip = c
        args = ["c12alloc", "--api", api, "--min-size", ms, "--skip", skip, "--len", 300_000 + vd.seed % 1000, "--seed", vd.seed, "--dir", scratch]
        if ms == 1 << 60:
            args = ["c12alloc", "--api", api, "--min-size", ms, "--skip", 0, "--len", (300_000 if skip == 0 else 2_500_000) + vd.seed % 1000, "--seed", vd.seed, "--dir", scratch, "--skew"]
        code, rep, err = run_sim(ctx, binary, args, allow_abort=True, timeout=600)
        return c, code, rep, err
    with ThreadPoolExecutor(max_workers=8) as ex:
        res = list(ex.map(one, cases))
    aborted = 0
    for (api, ms, skip), code, rep, err in res:
        if code in (0, 1) and rep:
            vd.add("alloc_default", rep)
        elif ms == 1 << 60:
            # nothing was refused, so nothing entitles the process to die: a crash under a legal allocator is a violation
            vd.add_violation("alloc_default", "c12alloc", {"class": "process-died-under-skewed-allocator", "index": api * 2 + skip, "engine": "native-abort",
                                                            "detail": "c12alloc --skew (api %s) exited with %s: %s" % (api, code, err[-300:]),
                                                            "history": {"api": api, "skew": True}, "argv": ["c12alloc", "--api", str(api), "--skew"]})
        elif "memory allocation of" in err or code in (134, -6):
            aborted += 1
        else:
            raise HarnessError("c12alloc exited with %s: %s" % (code, err[-500:]))
    vd.reports.append(("alloc_default", {"scenario": "c12alloc", "evaluations": aborted, "distinct": aborted, "distinct_nontrivial": aborted,
                                         "rule": "processes that aborted on the refused allocation (an accepted outcome: never a wrong answer)",
                                         "counters": {"fault.allocation_refused": aborted, "probe.alloc_fault_outcome_abort": aborted}, "samples": [], "violation_count": 0, "wall_s": 0}))
    import glob
    for f in glob.glob(os.path.join(scratch, "allocfault_*.bin")):   # left behind by the processes that aborted
        try:
            os.remove(f)
        except OSError:
            pass
    ctx.log("alloc_default/c12alloc: %d processes (%d aborted on the refused allocation) in %.1fs" % (len(cases), aborted, time.time() - t))


def check_C12(ctx, tier, seed):
    vd = Verdict(ctx, "C12", tier, seed, "exploration")
    b = build(ctx, "default")
    n = 200_000 if tier == "quick" else T(6_000_000)
    scratch = os.path.join(ctx.build_root, "default", "files")
    os.makedirs(scratch, exist_ok=True)
    # one REAL file beyond the generator's limit in every run (sparse: costs no disk), overlapped with the batch
    side = ThreadPoolExecutor(max_workers=6)
    big_jobs = [side.submit(lambda: run_or_death(ctx, b, ["hashfile-big", "--dir", scratch, "--variant", seed % 5, "--total", 4224281217 + seed % 3]))]
    # ... and one whose size is a multiple of 2^32 (a length that truncates to 0 in 32 bits)
    big_jobs.append(side.submit(lambda: run_or_death(ctx, b, ["hashfile-big", "--dir", os.path.join(scratch, "pow32"), "--variant", (seed + 2) % 5, "--total", (1 << 32) * (1 if tier == "quick" else 2)])))
    # a stream of ~100 MB through hash_stream_for with mostly full-buffer reads (anything that counts buffers / doubles sizes)
    big_jobs.append(side.submit(lambda: run_or_death(ctx, b, ["bigreader", "--variant", (seed + 1) % 5, "--pattern", "a40e17", "--seed", seed, "--total", 100_000_000 + seed % 1000])))
    # a stream of 2^32 + k bytes whose reader then FAILS (errno 5) instead of ending: the error must come back, however much was read
    big_jobs.append(side.submit(lambda: run_or_death(ctx, b, ["bigreader", "--variant", (seed + 3) % 5, "--pattern", "00ff10", "--seed", seed, "--total", (1 << 32) + 17 + seed % 5, "--fail-at-end"])))
    # hash_file from a process without privileges on a file owned by somebody else
    big_jobs.append(side.submit(lambda: run_or_death(ctx, b, ["hashfile-unpriv", "--path", "/etc/passwd"])))
    if tier != "quick":
        big_jobs.append(side.submit(lambda: run_or_death(ctx, b, ["hashfile-big", "--dir", scratch, "--variant", (seed + 2) % 5, "--total", 4224281216])))
    # a process that dies (stack exhaustion on the small-stack threads, an abort) is a violation, not a harness error
    sim_batch_procs(ctx, vd, "default", b, "c12", n, abort_engine="native-abort")
    extra_bins = build_many(ctx, ["lowmem", "rel_unsafe", "m_plain", "m_static_avx2", "m_native"])
    lb = extra_bins["lowmem"]
    sim_batch_procs(ctx, vd, "lowmem", lb, "c12", n // 4, abort_engine="native-abort")
    sim_batch_procs(ctx, vd, "rel_unsafe", extra_bins["rel_unsafe"], "c12", n // 4, abort_engine="native-abort")
    # configuration x scenario (round 10): the helper on a build with every optimisation off and on statically selected
    # target features (cfg!(target_feature = ...) / target-cpu=native code paths exist only there)
    for k in ("m_plain", "m_static_avx2", "m_native"):
        sim_batch_procs(ctx, vd, k, extra_bins[k], "c12", n // 8, abort_engine="native-abort")
    for i in range(1 if tier == "quick" else 16):
        vd.add("default", run_or_death(ctx, b, ["hashfile", "--dir", scratch, "--seed", seed + i]))
        vd.add("lowmem", run_or_death(ctx, lb, ["hashfile", "--dir", os.path.join(scratch, "lowmem"), "--seed", seed + i]))
    for j in big_jobs:
        vd.add("default", j.result())
    c12_alloc_faults(ctx, vd, build(ctx, "alloc_default"), os.path.join(scratch, "allocfault"), tier == "quick")
    strace_eintr(ctx, vd, b, scratch)
    if tier != "quick":
        # streams beyond the generator's limits through the stream helper itself (generated, no memory)
        jobs = [["bigreader", "--variant", v, "--pattern", pat, "--seed", seed + v, "--total", total]
                for v, pat, total in ((1, "a40e", 4224281216), (0, "41", 4224281217), (4, "0102", (1 << 32) + 12345), (3, "a40e5566", 4224281215))]
        t = time.time()
        with ThreadPoolExecutor(max_workers=4) as ex:
            for rep in ex.map(lambda a: run_or_death(ctx, b, a), jobs):
                vd.add("default", rep)
        ctx.log("multi-GiB streams through hash_stream_for: %d in %.1fs" % (len(jobs), time.time() - t))
    vd.extra["components_real"] = ["tlsh::hash_stream / hash_stream_for::<T> (all five variants), hash_file / hash_file_for on real files (real kernel read path), tlsh::hash_buf_for (oracle side), Generator::update/finalize"]
    vd.extra["components_stub"] = ["the reader (scripted SimReader: deliveries, EINTR, hard errors, early EOF, scribbling)", "strace injects EINTR (single and runs), EIO into counted real read(2) calls and EACCES into openat(2) of hash_file",
                                     "the global allocator (SimAlloc) in the allocation-fault processes: refuses requests above a size threshold while the helper runs"]
    vd.assumptions = ["the oracle is the crate's own one-shot hash_buf_for on the delivered bytes (as the property states)",
                      "seeded sampling of reader scripts, not enumeration", "hash_file's File is a concrete type: only errno faults (EINTR, EIO, EACCES) are injected into its real syscalls (short reads there are up to the kernel)"]
    return vd.finish()


def check_C03(ctx, tier, seed):
    vd = Verdict(ctx, "C03", tier, seed, "exploration")
    b = build(ctx, "default")
    n = 300_000 if tier == "quick" else T(10_000_000)
    # one REAL input above 1 GiB in every run (overlapped with the batch): a single update() call vs the same bytes in pieces
    import random
    rnd = random.Random(seed)
    pat = "".join("%02x" % rnd.getrandbits(8) for _ in range(rnd.randint(3, 11)))
    side = ThreadPoolExecutor(max_workers=2)
    jobs = [side.submit(lambda: run_or_death(ctx, b, ["c03big", "--variant", seed % 5, "--pattern", pat, "--seed", seed, "--total", (1 << 30) + 12345 + seed % 1000]))]
    if tier != "quick":
        jobs.append(side.submit(lambda: run_or_death(ctx, b, ["c03big", "--variant", (seed + 1) % 5, "--pattern", "a40e", "--seed", seed + 1, "--total", (1 << 31) + (1 << 29) + 77])))
    # single-threaded worker processes: whatever process-wide state a tree keeps (dispatch cells, caches) then sees many
    # different first-use orders (one per process), and each process is a deterministic function of its index range
    sim_batch_procs(ctx, vd, "default", b, "c03", n, abort_engine="native-abort")
    # the reduced-memory feature set (low-memory buckets, single tables, minimal hex tables): same histories, fewer of them
    extra = ["lowmem", "rel_unsafe", "m_static_sse2", "m_static_sse41", "m_static_avx2", "m_plain"]
    extra_bins = build_many(ctx, extra)
    for k in extra:
        sim_batch_procs(ctx, vd, k, extra_bins[k], "c03", n // (4 if k in ("lowmem", "rel_unsafe") else 8), abort_engine="native-abort")
    # chunking independence around the 4 GiB marks (states injected through hook H3, judged by the reference model)
    hb = try_build(ctx, "hooked")
    if hb:
        sim_batch_procs(ctx, vd, "hooked", hb, "c11", n // 15)
    else:
        vd.extra["DEGRADED"] = ["the hooked build does not compile on this tree: chunkings around the 4 GiB marks skipped (see C11)"]
        print("NOTE: C03 ran with reduced coverage: hooked build does not compile", flush=True)
    for j in jobs:
        vd.add("default", j.result())
    vd.extra["components_real"] = ["Generator<T>::new/update/finalize_with_options/processed_len/clone for the five variants (public API only, no hook)"]
    vd.extra["components_stub"] = ["the delivery schedule (piece sizes, instants of finalize/clone/drop) and the byte pool"]
    vd.assumptions = ["oracle = a fresh generator after ONE update with all bytes seen (the property's own oracle); a change that alters the algorithm consistently is not a C03 violation",
                      "seeded sampling of histories (<= 64 ops), not enumeration"]
    return vd.finish()


OPT_ONLY_FEATURES = [
    "opt-dist-length-table", "opt-dist-qratios-table", "opt-dist-qratios-table-double", "opt-pearson-table-double",
    "opt-low-memory-buckets", "opt-low-memory-hex-str-decode-half-table", "opt-low-memory-hex-str-decode-quarter-table",
    "opt-low-memory-hex-str-decode-min-table", "opt-low-memory-hex-str-encode-half-table", "opt-low-memory-hex-str-encode-min-table",
    "opt-simd-body-comparison", "opt-simd-bucket-aggregation", "opt-simd-parse-hex", "opt-simd-convert-hex", "simd-per-arch",
    "detect-features", "unsafe",
]
PLAIN = ["std", "easy-functions"]
MATRIX = {
    # the reference: every optimisation off (naive aggregation, pseudo-SIMD distance, match-based hex, no tables)
    "m_plain": dict(tlsh=PLAIN),
    "m_default": dict(tlsh=BASE_FEATURES),
    "m_unsafe": dict(tlsh=BASE_FEATURES + ["unsafe"]),
    "m_embedded": dict(tlsh=PLAIN + ["opt-embedded-default", "opt-low-memory-buckets", "opt-low-memory-hex-str-decode-min-table",
                                     "opt-low-memory-hex-str-encode-min-table"]),
    "m_static_sse41": dict(tlsh=PLAIN + ["opt-default", "simd"], rustflags="-C target-feature=+sse4.1,+ssse3"),
    # thorough only
    "m_dec_half": dict(tlsh=PLAIN + ["opt-default", "opt-low-memory-hex-str-decode-half-table"]),
    "m_dec_quarter": dict(tlsh=PLAIN + ["opt-default", "opt-low-memory-hex-str-decode-quarter-table"]),
    "m_enc_half": dict(tlsh=PLAIN + ["opt-default", "opt-low-memory-hex-str-encode-half-table"]),
    "m_static_sse2": dict(tlsh=PLAIN + ["opt-default", "simd"]),
    "m_static_avx2": dict(tlsh=PLAIN + ["opt-default", "simd"], rustflags="-C target-feature=+avx2"),
    "m_simd_nohex": dict(tlsh=PLAIN + ["opt-default", "simd-per-arch", "opt-simd-body-comparison", "opt-simd-bucket-aggregation", "detect-features"]),
    "m_dyn_no_tables": dict(tlsh=PLAIN + ["simd", "detect-features"]),
    # everything the host CPU has, enabled statically (AVX2, BMI1/2, FMA, POPCNT, ...): target features beyond the named tiers
    "m_native": dict(tlsh=PLAIN + ["opt-default", "simd"], rustflags="-C target-cpu=native"),
    "m_v2_default": dict(tlsh=BASE_FEATURES, rustflags="-C target-cpu=x86-64-v2"),
}
for _k, _v in MATRIX.items():
    CONFIGS[_k] = dict(tlsh=_v["tlsh"], sim=[], rustflags=_v.get("rustflags", ""))
MATRIX_QUICK = ["m_plain", "m_default", "m_unsafe", "m_embedded", "m_static_sse41", "m_dec_half", "m_dec_quarter", "m_enc_half", "m_static_sse2",
                "m_simd_nohex", "m_dyn_no_tables", "m_static_avx2", "m_native", "m_v2_default"]


def transcript_of(ctx, binary, seed, count):
    p = subprocess.run([binary, "transcript", "--seed", str(seed), "--count", str(count)], stdout=subprocess.PIPE, stderr=subprocess.PIPE, text=True, errors="replace")
    if p.returncode != 0:
        # the probe process died (abort, signal, undefined behaviour under feature `unsafe`, ...): a finding about that build
        msg = [l for l in p.stderr.splitlines() if l.strip()]
        return None, "DIED exit=%s %s" % (p.returncode, " | ".join(msg[-4:])[:500])
    lines = p.stdout.splitlines()
    if not lines or not lines[-1].startswith("DIGEST "):
        raise HarnessError("transcript probe printed no digest: %s" % binary)
    return lines[:-1], lines[-1]


def matrix_compare(ctx, vd, keys, count):
    """C07 (d): one seeded workload, one probe binary per build; transcripts must be byte-identical."""
    bins = build_many(ctx, keys)
    ref_key = keys[0]
    t = time.time()
    with ThreadPoolExecutor(max_workers=len(keys)) as ex:
        trs = dict(zip(keys, ex.map(lambda k: transcript_of(ctx, bins[k], vd.seed, count), keys)))
    nviol = 0
    dead = [k for k in keys if trs[k][0] is None]
    for k in dead:
        nviol += 1
        vd.add_violation(k, "c07matrix", {"class": "build-dies:%s" % k, "index": 0, "engine": "matrix-death",
                                          "detail": "the probe binary of build %s died while running the seeded workload (the other builds finish it): %s" % (k, trs[k][1]),
                                          "history": {"build": k, "features": CONFIGS[k]["tlsh"], "rustflags": CONFIGS[k].get("rustflags", ""), "profile": CONFIGS[k].get("profile"), "count": count}})
    keys = [k for k in keys if k not in dead]
    if ref_key in dead:
        ref_key = keys[0]
    ref_lines, ref_digest = trs[ref_key]
    distinct = len(set(ref_lines))
    trs = {k: v for k, v in trs.items() if k in keys}
    if len(set(d for _, d in trs.values())) > 1:
        # majority vote per differing op: the builds in the minority are the ones reported (the nominal
        # reference, the everything-off build, can itself be the wrong one)
        nops = min(len(l) for l, _ in trs.values())
        blamed = {}
        for i in range(nops):
            lines_i = {k: trs[k][0][i] for k in keys}
            if len(set(lines_i.values())) == 1:
                continue
            groups = {}
            for k, l in lines_i.items():
                groups.setdefault(l, []).append(k)
            major = max(groups.values(), key=lambda g: (len(g), ref_key in g))
            for l, g in groups.items():
                if g is major:
                    continue
                for k in g:
                    blamed.setdefault(k, (i, l, lines_i[major[0]], major))
        for k, (i, got, want, major) in sorted(blamed.items()):
            opj = subprocess.run([bins[k], "transcript-op", "--seed", str(vd.seed), "--index", str(i)], stdout=subprocess.PIPE, text=True, errors="replace").stdout.strip()
            nviol += 1
            other = major[0]
            vd.add_violation(k, "c07matrix", {"class": "build-differs:%s" % k, "index": i, "engine": "matrix",
                                              "detail": "op #%d %s: build %s gives `%s`, the other %d build(s) (%s) give `%s`" % (i, opj, k, got, len(major), ",".join(major), want),
                                              "history": {"op_index": i, "op": json.loads(opj) if opj else None, "build": k, "reference_build": other,
                                                          "features": CONFIGS[k]["tlsh"], "rustflags": CONFIGS[k].get("rustflags", ""), "profile": CONFIGS[k].get("profile"),
                                                          "reference_features": CONFIGS[other]["tlsh"], "reference_rustflags": CONFIGS[other].get("rustflags", ""),
                                                          "reference_profile": CONFIGS[other].get("profile")}})
    ctx.log("matrix: %d builds x %d ops in %.1fs, %d differing builds" % (len(keys), count, time.time() - t, nviol))
    vd.reports.append(("matrix", {"scenario": "c07matrix", "evaluations": count * len(keys), "distinct": distinct, "distinct_nontrivial": distinct,
                                  "rule": "build matrix: the same seeded op sequence run by one probe binary per build; distinct = distinct transcript lines of the reference build",
                                  "counters": {"probe.matrix_builds": len(keys)}, "samples": [{"builds": keys, "first_lines": ref_lines[:3]}],
                                  "violation_count": nviol, "wall_s": time.time() - t}))


def shuttle_runs(ctx, vd, binary, iters, procs):
    sched_dir = os.path.join(ctx.build_root, "shuttle", "schedules")
    shutil.rmtree(sched_dir, ignore_errors=True)
    os.makedirs(sched_dir, exist_ok=True)
    t = time.time()
    def one(i):
        d = os.path.join(sched_dir, str(i))
        os.makedirs(d, exist_ok=True)
        sched = "pct" if i % 2 else "random"
        code, rep, err = run_sim(ctx, binary, ["shuttle", "--seed", vd.seed * 1000 + i, "--iters", iters, "--sched", sched, "--dir", d], timeout=600 + iters // 50)
        for v in rep.get("violations", []):
            files = sorted(glob.glob(os.path.join(d, "schedule*.txt")))
            if files:
                v["schedule"] = open(files[0]).read()
        return rep
    with ThreadPoolExecutor(max_workers=NCPU) as ex:
        reps = list(ex.map(one, range(procs)))
    for r in reps:
        vd.add("shuttle", r)
    ctx.log("shuttle: %d x %d schedules in %.1fs, %d violations" % (procs, iters, time.time() - t, sum(r.get("violation_count", 0) for r in reps)))


def miri_race(ctx, vd, key, workload_seeds, many_seeds, fresh=False):
    """C07 (c): first-call race of real threads on the unhooked crate under Miri's seeded scheduler.
    fresh: the main thread never touches the library before the threads start, and every thread begins with its own
    generator work (so that lazily built state is first touched by racing threads)."""
    total = 0
    for ws in workload_seeds:
        argv = ["race", "--seed", ws, "--threads", 3, "--ops", 3] + (["--fresh"] if fresh else [])
        code, out, err = miri_run(ctx, key, argv, many_seeds=many_seeds)
        oks = out.count("RACE-OK")
        total += oks
        if "unsupported operation" in err:
            sys.stderr.write(err[-3000:])
            raise HarnessError("Miri: unsupported operation in %s" % key)
        if "RACE-VIOLATION" in out or "Undefined Behavior" in err or "Data race" in err or code != 0:
            detail = next((l for l in out.splitlines() if "RACE-VIOLATION" in l), "") or next((l for l in err.splitlines() if "error:" in l), "exit %d" % code)
            cls = "first-caller-dependence" if "RACE-VIOLATION" in out else "miri-ub-in-first-call-race"
            vd.add_violation(key, "c07race", {"class": cls, "index": ws, "engine": "miri", "detail": detail[:600],
                                              "history": {"argv": [str(a) for a in argv], "many_seeds": many_seeds, "config": key},
                                              "argv": [str(a) for a in argv]})
    vd.reports.append((key, {"scenario": "c07race", "evaluations": total, "distinct": total, "distinct_nontrivial": total,
                             "rule": "Miri: one evaluation = one (workload seed, Miri scheduler seed) execution of 3 real threads racing the process's first calls; each is distinct by construction of the seed pair",
                             "counters": {"probe.miri_race_executions": total, "fault.miri_scheduler_seeds": total}, "samples": [{"config": key, "workload_seeds": list(workload_seeds), "miri_many_seeds": many_seeds}],
                             "violation_count": 0, "wall_s": 0}))


def check_C07(ctx, tier, seed):
    vd = Verdict(ctx, "C07", tier, seed, "exploration")
    quick = tier == "quick"
    matrix_keys = MATRIX_QUICK if quick else list(MATRIX.keys())
    # the hooked build takes part in the matrix, too: with the seam in place (simulated CPU = everything the host has)
    # results must equal those of the unhooked builds -- the instrumentation itself changes nothing
    with ThreadPoolExecutor(max_workers=2) as ex:
        hooked_bin, shuttle_bin = ex.map(lambda k: try_build(ctx, k), ["hooked", "shuttle"])
    if hooked_bin:
        matrix_keys = matrix_keys + ["hooked"]
    # the build *profile* is a configuration, too: the default features with debug assertions and overflow checks
    matrix_keys = matrix_keys + ["dbg"]
    bins = build_many(ctx, matrix_keys)
    degraded = []
    # (a) simulated-CPU sweep
    if hooked_bin:
        sim_batch_procs(ctx, vd, "hooked", hooked_bin, "c07cpu", 60_000 if quick else T(6_000_000))
    else:
        degraded.append("(a) simulated-CPU sweep skipped: the hooked build (--cfg fast_tlsh_verif) does not compile on this tree")
    # (b) first-call races under shuttle (random + PCT)
    if shuttle_bin:
        # many processes: state that bypasses the resettable once-cell is only "first" once per process
        shuttle_runs(ctx, vd, shuttle_bin, 1_000 if quick else T(50_000), 4 * NCPU)
    else:
        degraded.append("(b) shuttle races skipped: the shuttle build does not compile on this tree")
    # states and streams only multi-GiB inputs produce, in two more configurations: the jump histories (model as oracle) on the
    # low-memory-buckets build, and one real single slice > u32::MAX on the build with feature `unsafe`
    hl = try_build(ctx, "hooked_lowmem")
    side = ThreadPoolExecutor(max_workers=1)
    big_argv = ["bigstream", "--variant", seed % 5, "--pattern", "00", "--seed", 1, "--single-slice", (1 << 32) + 1000]
    big = side.submit(lambda: run_sim(ctx, bins["m_unsafe"], big_argv, allow_abort=True))
    if hl:
        sim_batch_procs(ctx, vd, "hooked_lowmem", hl, "c11", 15_000 if quick else T(300_000))
    bcode, brep, berr = big.result()
    if brep is not None and bcode in (0, 1):
        vd.add("m_unsafe", brep)
    else:
        vd.add_violation("m_unsafe", "c11big", {"class": "native-abort:single slice > u32::MAX", "index": 0, "engine": "native-abort",
                                               "detail": "the build with feature unsafe died (exit %s) on one update() call with 2^32+1000 bytes: %s" % (bcode, berr[-300:].replace("\n", " | ")),
                                               "history": {"single_slice": (1 << 32) + 1000}, "argv": [str(a) for a in big_argv]})
    if degraded:
        vd.extra["DEGRADED"] = degraded
        print("NOTE: C07 ran with reduced coverage: %s" % "; ".join(degraded), flush=True)
    # (d) build matrix
    matrix_compare(ctx, vd, matrix_keys, 20_000 if quick else T(400_000))
    # swarm over build knobs: seeded random subsets of the optimisation-only features (x a random static tier), rebuilt
    # for every run -- the fixed matrix above cannot contain every combination
    import random
    rnd = random.Random(seed)
    extra = []
    for i in range(3 if quick else 8):
        feats = sorted(set(PLAIN + [f for f in OPT_ONLY_FEATURES if rnd.random() < 0.45]))
        if "detect-features" in feats and "std" not in feats:
            feats.append("std")
        k = "m_rand_%d" % i
        CONFIGS[k] = dict(tlsh=feats, sim=[], rustflags=rnd.choice(["", "", "-C target-feature=+sse4.1,+ssse3", "-C target-feature=+avx2", "-C target-cpu=native", "-C target-cpu=x86-64-v3"]))
        if rnd.random() < 0.34:
            CONFIGS[k]["profile"] = {"opt-level": rnd.choice([0, 1, 2, "\"s\""]), "debug-assertions": rnd.choice(["true", "false"]), "overflow-checks": "true"}
        extra.append(k)
    matrix_compare(ctx, vd, ["m_plain"] + extra, 20_000 if quick else T(200_000))
    vd.extra["random_feature_sets"] = {k: {"features": CONFIGS[k]["tlsh"], "rustflags": CONFIGS[k]["rustflags"]} for k in extra}
    for k in extra:
        shutil.rmtree(os.path.join(ctx.build_root, k), ignore_errors=True)
    # (c) the same races on the unhooked crate under Miri (real OnceLock)
    if quick:
        miri_race(ctx, vd, "miri_sse2", [seed], 16)
    else:
        for k in ("miri_sse2", "miri_sse41", "miri_avx2"):
            miri_race(ctx, vd, k, [seed + i for i in range(4)], 64)
    vd.extra["components_real"] = ["all of fast-tlsh through its public API; in (c) also the real std::sync::OnceLock dispatch cells",
                                   "every x86 backend the host supports (AVX2, SSE4.1/SSSE3, SSE2, naive / pseudo-SIMD), selected through the simulated CPU"]
    vd.extra["components_stub"] = ["(a),(b): the CPU feature mask and the resettable once-cell shim (hooks H1+H2)", "(b): shuttle's scheduler and mutex",
                                   "(c): Miri's interpreter and seeded scheduler", "hex-simd's own runtime dispatch is NOT behind the seam (covered only through (c)'s tiers and (d)'s static builds)"]
    vd.extra["builds"] = matrix_keys
    vd.assumptions = ["behaviour-changing features (strict-parser, serde*) and nightly-only ones are outside the quantifier",
                      "AArch64 / WASM / portable-SIMD backends cannot be executed on this host"]
    return vd.finish()


NOSTD_FEATURE_SETS = [[], ["opt-default"], ["opt-embedded-default"], ["easy-functions"], ["strict-parser"], ["unsafe"], ["simd"], ["serde"],
                      ["easy-functions", "opt-default"], ["serde", "serde-buffered"], ["easy-functions", "opt-embedded-default", "strict-parser", "unsafe"],
                      ["opt-low-memory-buckets", "opt-low-memory-hex-str-decode-min-table", "opt-low-memory-hex-str-encode-min-table"],
                      ["opt-default", "easy-functions", "strict-parser"], ["opt-low-memory-hex-str-decode-half-table"],
                      ["opt-low-memory-hex-str-encode-half-table", "opt-dist-qratios-table"], ["opt-simd-body-comparison", "opt-simd-bucket-aggregation", "simd-per-arch"]]


def nostd_builds(ctx, vd, sets):
    """Static part of C18 (a build check, not simulation): the library must compile without std and alloc."""
    lanes = 4
    def lane(i):
        target = os.path.join(ctx.build_root, "nostd_lib", "target%d" % i)
        res = []
        for feats in sets[i::lanes]:
            # both profiles: code under cfg(debug_assertions) / cfg(not(debug_assertions)) exists in only one of them
            for prof in ([], ["--release"]):
                cmd = ["cargo", "build", "--lib", "--offline", "--quiet", "--no-default-features", "--manifest-path", os.path.join(ctx.repo, "fast-tlsh", "Cargo.toml")] + prof
                if feats:
                    cmd += ["--features", ",".join(feats)]
                p = subprocess.run(cmd, env=cargo_env({"CARGO_TARGET_DIR": target}), stdout=subprocess.PIPE, stderr=subprocess.STDOUT, text=True, errors="replace")
                res.append((feats + prof, cmd, p.returncode, p.stdout))
        return res
    with ThreadPoolExecutor(max_workers=lanes) as ex:
        results = [x for l in ex.map(lane, range(lanes)) for x in l]
    ok = 0
    for bi, (feats, cmd, code, out) in enumerate(results):
        if code != 0:
            err = [l for l in out.splitlines() if l.startswith("error")][:3]
            vd.add_violation("nostd_lib", "c18nostd", {"class": "no-std-no-alloc-build-fails:%s" % ("+".join(feats) or "none"), "index": bi, "engine": "build",
                                                       "detail": "cargo build --lib --no-default-features %s --features '%s' failed: %s" % ("--release" if "--release" in feats else "(dev profile)", ",".join(f for f in feats if f != "--release"), " | ".join(err)),
                                                       "history": {"command": " ".join(cmd)}, "argv": cmd})
        else:
            ok += 1
    ctx.log("no-std/no-alloc library builds: %d/%d ok" % (ok, len(results)))
    vd.extra["nostd_noalloc_builds"] = {"ok": ok, "of": len(results), "feature_sets": sets, "profiles": ["dev", "release"], "note": "build check, not simulation"}


def alloc_world(ctx, vd, config, binary, procs, per_proc, hard):
    """Many fresh processes (so that 'the first call' really is first), each single-threaded."""
    tmp = os.path.join(ctx.build_root, config, "progress")
    os.makedirs(tmp, exist_ok=True)
    t = time.time()
    def one(i):
        lo = i * per_proc
        args = ["batch", "c18", "--seed", vd.seed, "--start", lo, "--count", per_proc, "--threads", 1]
        pf = os.path.join(tmp, "p%d" % i)
        if hard:
            args += ["--alloc-hard-fail", "--progress-file", pf]
        if i % 2 == 1:
            args += ["--env-fault"]   # every environment variable the code asks for while a window is armed "is set"
        code, rep, err = run_sim(ctx, binary, args, allow_abort=True)
        if code not in (0, 1):
            # the process died: in hard-fail mode that is a hidden allocation turned into an allocation failure
            idx = int(open(pf).read() or lo) if os.path.exists(pf) else lo
            c2, rep2, _ = run_sim(ctx, binary, ["batch", "c18", "--seed", vd.seed, "--start", idx, "--count", 1, "--threads", 1] + (["--env-fault"] if i % 2 == 1 else []))
            if rep2 and rep2.get("violations"):
                return rep2
            return {"scenario": "c18", "seed": str(vd.seed), "evaluations": idx - lo, "violation_count": 1,
                    "violations": [{"index": idx, "class": "abort-under-allocation-failure", "detail": "process exited with %s at run %d with allocation failure injected: %s" % (code, idx, err[-300:]),
                                    "history": None}]}
        return rep
    with ThreadPoolExecutor(max_workers=NCPU) as ex:
        reps = list(ex.map(one, range(procs)))
    for r in reps:
        vd.add(config + ("+allocfail" if hard else ""), r)
    ctx.log("%s/c18%s: %d processes x %d runs in %.1fs, %d violations" % (config, " (allocation failure injected)" if hard else "", procs, per_proc, time.time() - t,
                                                                         sum(r.get("violation_count", 0) for r in reps)))


ALLOC_CONFIGS = ["alloc_default", "alloc_plain", "alloc_embedded", "alloc_unsafe_minhex", "alloc_dbg", "alloc_sse41", "alloc_sse2"]


def check_C18(ctx, tier, seed):
    vd = Verdict(ctx, "C18", tier, seed, "exploration")
    quick = tier == "quick"
    bins = build_many(ctx, ALLOC_CONFIGS)
    for cfg in ALLOC_CONFIGS:
        alloc_world(ctx, vd, cfg, bins[cfg], 48 if quick else 512, 1500 if quick else T(20000), hard=False)
        alloc_world(ctx, vd, cfg, bins[cfg], 16 if quick else 128, 1500 if quick else T(20000), hard=True)
        # several real threads of one process inside the core operations at the same time (contended process-wide state)
        sim_batch_procs(ctx, vd, cfg, bins[cfg], "c18mt", 16000 if quick else T(640000), procs=8)
    nostd_builds(ctx, vd, NOSTD_FEATURE_SETS if not quick else NOSTD_FEATURE_SETS[:12])
    vd.extra["grid"] = "states = (variant, op kind [14], first call of that kind in the run?) -> 5 x 19 x 2 = 190 cells per build; see distinct_states"
    vd.extra["components_real"] = ["every core operation of fast-tlsh (new/update/finalize/processed_len/clone/from_str_bytes/TryFrom/store_*/compare/max_distance/clear_checksum/accessors/quartile), incl. first (dispatch-initialising) calls in fresh processes and on fresh threads"]
    vd.extra["components_stub"] = ["the global allocator (SimAlloc: counts while armed; returns null while armed in the allocation-failure sub-batches)"]
    vd.extra["builds"] = ALLOC_CONFIGS
    vd.assumptions = ["serde format crates, to_string and the stream helpers allocate by design and are only used as the negative control",
                      "the no-std/no-alloc part is a build check (not simulation) and is labelled so"]
    return vd.finish()


import threading
_MIRI_WARM = {}
_MIRI_LOCK = threading.Lock()


def miri_batches(ctx, vd, key, scenario, count, procs, extra=()):
    """Runs `count` small histories of `scenario` under Miri, split over `procs` interpreter processes."""
    per = max(1, count // procs)
    # warm-up (builds the Miri sysroot / crate once per configuration, serially)
    with _MIRI_LOCK:
        lock = _MIRI_WARM.setdefault(key, threading.Lock())
    with lock:
        c0, o0, e0 = miri_run(ctx, key, ["batch", scenario, "--seed", vd.seed, "--start", 0, "--count", 0, "--threads", 1])
    if c0 != 0:
        sys.stderr.write(e0[-3000:])
        raise HarnessError("Miri warm-up failed for %s" % key)
    t = time.time()
    def one(i):
        args = ["batch", scenario, "--seed", vd.seed, "--start", i * per, "--count", per, "--threads", 1, "--small", "--trace-runs", "--shrink-budget", 300] + list(extra)
        code, out, err = miri_run(ctx, key, args)
        rep = None
        lines = out.strip().splitlines()
        if lines:
            try:
                rep = json.loads(lines[-1])
            except Exception:
                rep = None
        if code in (0, 1) and rep is not None:
            return rep
        if "unsupported operation" in err:
            sys.stderr.write(err[-3000:])
            raise HarnessError("Miri: unsupported operation (%s/%s)" % (key, scenario))
        runs = re.findall(r"^RUN (\d+)$", err, re.M)
        idx = int(runs[-1]) if runs else i * per
        errline = next((l for l in err.splitlines() if l.startswith("error:")), "exit %d" % code)
        where = next((l.strip() for l in err.splitlines() if "-->" in l and "fast-tlsh" in l), "")
        rargs = ["batch", scenario, "--seed", str(vd.seed), "--start", str(idx), "--count", "1", "--threads", "1", "--small", "--trace-runs"] + list(extra)
        hist = subprocess.run([build(ctx, "default"), "history", scenario, "--seed", str(vd.seed), "--index", str(idx), "--small"], stdout=subprocess.PIPE, text=True, errors="replace").stdout.strip()
        return {"scenario": scenario, "seed": str(vd.seed), "evaluations": max(0, idx - i * per), "violation_count": 1,
                "violations": [{"index": idx, "class": "miri:" + re.sub(r"\d+", "", errline)[:90], "engine": "miri", "argv": rargs,
                                "detail": "%s %s (configuration %s, run %d)" % (errline, where, key, idx),
                                "history": {"config": key, "many_seeds": None, "scenario_history": json.loads(hist) if hist.startswith("{") else None}}]}
    with ThreadPoolExecutor(max_workers=procs) as ex:
        reps = list(ex.map(one, range(procs)))
    for r in reps:
        r.setdefault("counters", {})
        r["counters"]["probe.miri_runs"] = r.get("evaluations", 0)
        vd.add(key, r)
    ctx.log("miri %s/%s: %d x %d histories in %.1fs, %d violations" % (key, scenario, procs, per, time.time() - t, sum(r.get("violation_count", 0) for r in reps)))


def check_C17(ctx, tier, seed):
    vd = Verdict(ctx, "C17", tier, seed, "exploration")
    quick = tier == "quick"
    native = ["dbg", "dbg_unsafe", "rel_unsafe", "dbg_plain"] + ([] if quick else ["asan", "asan_unsafe"])
    bins = build_many(ctx, native + ["default"])
    scen = [("c17api", 60_000), ("c17reader", 40_000), ("c03", 20_000), ("c12", 20_000), ("c11small", 10_000)]
    mult = 1 if quick else max(1, T(40))
    for cfg in native:
        env = None
        if cfg.startswith("asan"):
            env = dict(os.environ, ASAN_OPTIONS="detect_leaks=0:abort_on_error=1")
        for sc, n in scen:
            n = n * mult // (8 if cfg.startswith("asan") else 1)
            sim_batch_procs(ctx, vd, cfg, bins[cfg], sc, n, abort_engine="asan" if cfg.startswith("asan") else "native-abort", env=env)
    # debug-assertion twins of the feature-gated code paths: reduced tables and buckets, no tables at all, statically
    # selected SSE2 / SSE4.1 tiers, low-memory buckets under the SIMD aggregation (fewer runs each)
    twins = ["dbg_embedded", "dbg_lowmem_simd", "dbg_bare", "dbg_sse41", "dbg_sse2", "rel_unsafe_lowmem"]
    tbins = build_many(ctx, twins)
    # ... plus seeded random feature subsets under the debug profile, rebuilt for every run (swarm over build knobs)
    import random
    rnd = random.Random(seed * 31 + 17)
    rand_twins = []
    for i in range(2 if quick else 6):
        feats = sorted(set(PLAIN + [f for f in OPT_ONLY_FEATURES if rnd.random() < 0.45]))
        k = "dbg_rand_%d" % i
        CONFIGS[k] = dict(tlsh=feats, sim=[], rustflags=rnd.choice(["", "", "-C target-feature=+sse4.1,+ssse3", "-C target-feature=+avx2"]),
                          profile={"opt-level": rnd.choice([0, 1, 2]), "debug-assertions": "true", "overflow-checks": "true"})
        rand_twins.append(k)
    tbins.update(build_many(ctx, rand_twins))
    vd.extra["random_debug_builds"] = {k: {"features": CONFIGS[k]["tlsh"], "rustflags": CONFIGS[k]["rustflags"], "profile": CONFIGS[k]["profile"]} for k in rand_twins}
    tbins["dev0"] = build(ctx, "dev0")
    def twin(cfg):
        slow = 4 if cfg == "dev0" or CONFIGS[cfg].get("profile", {}).get("opt-level") == 0 else 1
        for sc, n in (("c17api", 16_000), ("c03", 8_000), ("c12", 4_000)):
            sim_batch_procs(ctx, vd, cfg, tbins[cfg], sc, n * mult // slow, abort_engine="native-abort", procs=4)
    with ThreadPoolExecutor(max_workers=4) as ex:
        list(ex.map(twin, twins + ["dev0"] + rand_twins))
    for k in rand_twins:
        shutil.rmtree(os.path.join(ctx.build_root, k), ignore_errors=True)
    # the file helpers on real files, incl. calls from threads with a 128 KiB stack (stack exhaustion is a crash, too)
    fscratch = os.path.join(ctx.build_root, "dbg", "files")
    for cfg in ("dbg", "rel_unsafe"):
        code, rep, err = run_sim(ctx, bins[cfg], ["hashfile", "--dir", fscratch, "--seed", seed], allow_abort=True)
        if rep is not None:
            rep["property"] = "C17"
            # only crashes / panics count here (value mismatches belong to C12)
            rep["violations"] = [v for v in rep.get("violations", []) if "PANIC" in v.get("detail", "")]
            rep["violation_count"] = len(rep["violations"])
            vd.add(cfg, rep)
        else:
            vd.add_violation(cfg, "c12file", {"class": "native-abort:hash_file on a small-stack thread", "index": 0, "engine": "hashfile",
                                              "detail": "process died (exit %s) while hashing real files (every other file on a thread with a 128 KiB stack): %s" % (code, err[-300:].replace("\n", " | ")),
                                              "history": {"seed": seed}})
    # serde visitors under debug assertions / overflow checks with feature unsafe (false invariants abort there)
    ds = try_build(ctx, "dbg_serde")
    if ds:
        for sc in ("c16", "c16mock"):
            sim_batch_procs(ctx, vd, "dbg_serde", ds, sc, 40_000 * mult, abort_engine="native-abort")
    # one real single slice longer than u32::MAX on the release build with feature unsafe (optimiser assumptions about lengths)
    code_rep = run_sim(ctx, bins["rel_unsafe"], ["bigstream", "--variant", seed % 5, "--pattern", "00", "--seed", 1, "--single-slice", (1 << 32) + 1000], allow_abort=True)
    if code_rep[1] is not None:
        vd.add("rel_unsafe", code_rep[1])
    else:
        vd.add_violation("rel_unsafe", "c11big", {"class": "native-abort:single slice > u32::MAX", "index": 0, "engine": "native-abort", "detail": "process died (exit %s) on one update() call with 2^32+1000 bytes" % code_rep[0],
                                                 "history": {"single_slice": (1 << 32) + 1000}, "argv": ["bigstream", "--variant", str(seed % 5), "--pattern", "00", "--seed", "1", "--single-slice", str((1 << 32) + 1000)]})
    hb = try_build(ctx, "hooked_dbg")
    if hb:
        sim_batch(ctx, vd, "hooked_dbg", hb, "c11", 15_000 * mult)
    else:
        vd.extra["DEGRADED"] = ["the hooked build does not compile on this tree: multi-GiB states under overflow checks skipped"]
        print("NOTE: C17 ran with reduced coverage: hooked build does not compile", flush=True)
    # Miri: a deterministic interpreter that reports UB; under feature `unsafe` every invariant!() is an
    # unreachable_unchecked, so a false invariant is reported as "entering unreachable code"
    miri_cfgs = ["miri_sse2", "miri_sse41", "miri_avx2", "miri_unsafe_sse2"] if quick else ["miri_sse2", "miri_sse41", "miri_avx2", "miri_unsafe_sse2", "miri_unsafe_sse41", "miri_unsafe_avx2"]
    pairs = []
    for cfg in miri_cfgs:
        if quick:
            scs = ["c17api", "c17reader"] if cfg == "miri_unsafe_sse2" else ["c17api"]
        else:
            scs = ["c17api", "c17reader", "c03", "c12"]
        pairs += [(cfg, sc) for sc in scs]
    pairs.append(("miri_unsafe_lowmem", "c17api"))
    pairs.append(("miri_ssse3", "c17api"))
    # all (configuration, scenario) pairs run concurrently, 3 interpreter processes each in the quick tier
    procs = 3 if quick else 4
    per = 32 if quick else max(8, T(128))
    with ThreadPoolExecutor(max_workers=(len(pairs) + 1) if quick else 4) as ex:
        # first calls of two or three threads racing on the build with feature `unsafe` (data races on lazily built state
        # are invisible natively: only the interpreter's race detector sees them)
        race = ex.submit(lambda: miri_race(ctx, vd, "miri_unsafe_sse2", [seed] if quick else [seed + i for i in range(4)], 16 if quick else max(8, T(64)), fresh=True))
        list(ex.map(lambda cs: miri_batches(ctx, vd, cs[0], cs[1], per * procs, procs), pairs))
        race.result()
    if not quick:
        miri_batches(ctx, vd, "miri_unsafe_serde", "c16", max(16, T(800)), 8)
        miri_batches(ctx, vd, "miri_unsafe_serde", "c16mock", max(16, T(800)), 8)
    vd.extra["engines"] = {"native debug-assertions+overflow-checks": [c for c in native if c.startswith("dbg")], "native release with feature unsafe": ["rel_unsafe"],
                           "AddressSanitizer": [c for c in native if c.startswith("asan")], "Miri": miri_cfgs,
                           "unsafe-feature transcript == safe transcript": "checked by C07 (d), builds m_unsafe vs m_plain"}
    vd.extra["components_real"] = ["all of fast-tlsh through its safe public API, incl. the SIMD backends of each tier and hash_stream with caller-supplied readers"]
    vd.extra["components_stub"] = ["readers (honest and contract-violating: over-report by 1, by 10^6, usize::MAX, claims-without-writing)", "Miri's interpreter; ASan's runtime"]
    vd.assumptions = ["decided over the histories the simulator generates; the parse/compare input spaces are sampled, not enumerated",
                      "a panic is accepted only after a reader lied in that run, or for quartile(i) with i >= NUMBER_OF_BUCKETS",
                      "Miri 'unsupported operation' is a harness error (exit 2), never a VIOLATION"]
    return vd.finish()


def check_C11_unhooked(ctx, vd, tier, seed):
    """Fallback when the state seam does not compile on the tree under test: no state injection is possible, so the
    marks are reached with REAL streams only (slower, fewer histories), plus the model-vs-implementation runs."""
    msg = "the hooked build (--cfg fast_tlsh_verif) does not compile on this tree: jump histories skipped, real streams only"
    vd.extra["DEGRADED"] = [msg]
    print("NOTE: C11 ran with reduced coverage: %s" % msg, flush=True)
    bins = build_many(ctx, ["default", "dbg"])
    import random
    rnd = random.Random(seed)
    jobs = [["bigstream", "--variant", v, "--pattern", "a40e" if v % 2 else "%02x" % rnd.getrandbits(8), "--seed", rnd.getrandbits(32)] for v in range(5)]
    jobs.append(["bigstream", "--variant", seed % 5, "--pattern", "00", "--seed", 1, "--single-slice", (1 << 32) + 1000])
    jobs.append(["bigstream", "--variant", (seed + 3) % 5, "--pattern", "00", "--seed", 1, "--single-slice", 4224281216])
    with ThreadPoolExecutor(max_workers=8) as ex:
        futs = [ex.submit(lambda a=a: run_or_death(ctx, bins["default"], a)) for a in jobs]
        sim_batch(ctx, vd, "default", bins["default"], "c11small", 60_000, threads=8)
        sim_batch(ctx, vd, "dbg", bins["dbg"], "c11small", 15_000, threads=8)
        for f in futs:
            vd.add("default", f.result())
    vd.extra["components_real"] = ["Generator<T>::update / finalize_with_options / processed_len / clone on real multi-GiB streams"]
    vd.extra["components_stub"] = ["reference model with frozen tables (oracle)"]
    return vd.finish()


def check_C11(ctx, tier, seed):
    vd = Verdict(ctx, "C11", tier, seed, "exploration")
    with ThreadPoolExecutor(max_workers=2) as ex:
        hb, hdb = ex.map(lambda k: try_build(ctx, k), ["hooked", "hooked_dbg"])
    if not hb or not hdb:
        return check_C11_unhooked(ctx, vd, tier, seed)
    bins = {"hooked": hb, "hooked_dbg": hdb}
    n = 60_000 if tier == "quick" else T(1_000_000)
    # one REAL stream in every run, started first so that it overlaps with the batches: a single update() call with a
    # slice longer than u32::MAX (a lazily mapped zero buffer) -- the only way to reach the length conversion of one huge piece
    side = ThreadPoolExecutor(max_workers=4)
    # ... and one sparse FILE of exactly 2^32 bytes through hash_file_for (a size whose low 32 bits are zero)
    fscratch = os.path.join(ctx.build_root, "hooked", "files")
    side_job4 = side.submit(lambda: run_or_death(ctx, bins["hooked"], ["hashfile-big", "--dir", fscratch, "--variant", (seed + 2) % 5, "--total", 1 << 32]))
    side_job = side.submit(lambda: run_or_death(ctx, bins["hooked"], ["bigstream", "--variant", seed % 5, "--pattern", "00", "--seed", 1,
                                                                "--single-slice", (1 << 32) + 1000 + seed % 7]))
    # ... and one single slice of exactly 4,224,281,216 bytes (> 1 GiB, > 2^31, not a multiple of any power-of-two block):
    # every byte of it must be counted, the result must be the reference hash with length code 169
    # ... and one generated stream of MAX + 1 bytes through the stream helper (the limit must also hold when the bytes arrive through hash_stream*)
    side_job3 = side.submit(lambda: run_or_death(ctx, bins["hooked"], ["bigreader", "--variant", (seed + 1) % 5, "--pattern", "5a", "--seed", seed, "--total", (1 << 32) + 5 + seed % 7]))
    side_job2 = side.submit(lambda: run_or_death(ctx, bins["hooked"], ["bigstream", "--variant", (seed + 3) % 5, "--pattern", "00", "--seed", 1,
                                                                 "--single-slice", 4224281216]))
    # single-threaded processes: every history also draws a simulated CPU, so each backend's quartile / body code meets
    # the bucket counts that only multi-GiB inputs produce
    sim_batch_procs(ctx, vd, "hooked", bins["hooked"], "c11", n)
    sim_batch_procs(ctx, vd, "hooked_dbg", bins["hooked_dbg"], "c11", n // 4)
    hl = try_build(ctx, "hooked_lowmem")
    if hl:
        sim_batch_procs(ctx, vd, "hooked_lowmem", hl, "c11", n // 4)
    sim_batch(ctx, vd, "hooked", bins["hooked"], "c11small", n)
    sim_batch(ctx, vd, "hooked_dbg", bins["hooked_dbg"], "c11small", n // 4)
    vd.add("hooked", side_job.result())
    vd.add("hooked", side_job2.result())
    vd.add("hooked", side_job3.result())
    vd.add("hooked", side_job4.result())
    if tier != "quick":
        # real multi-GiB streams (works with the guard off, too; with it on, the internal state is compared with the model's jump)
        import random
        rnd = random.Random(seed)
        jobs = []
        for v in range(5):
            pats = ["a40e", "".join("%02x" % rnd.getrandbits(8) for _ in range(rnd.choice([1, 2, 3]) if v in (2, 4) else rnd.randint(1, 48)))]
            for pat in pats:
                jobs.append(["bigstream", "--variant", v, "--pattern", pat, "--seed", rnd.getrandbits(32)])
        for v, total in ((1, 4224281216), (0, 4224281217), (4, (1 << 32) + 5), (3, (1 << 32) - 1)):
            jobs.append(["bigstream", "--variant", v, "--pattern", "00", "--seed", 1, "--single-slice", total])
        t = time.time()
        def big(args):
            return run_or_death(ctx, bins["hooked"], args)
        with ThreadPoolExecutor(max_workers=NCPU - 2) as ex:
            for rep in ex.map(big, jobs):
                vd.add("hooked", rep)
        ctx.log("real streams: %d jobs in %.1fs" % (len(jobs), time.time() - t))
    jumped = sum(r.get("counters", {}).get("sim_bytes_jumped", 0) for _, r in vd.reports)
    fed = sum(r.get("counters", {}).get("sim_bytes_fed", 0) for _, r in vd.reports)
    vd.extra["simulated_stream_bytes"] = {"jumped_by_model_fast_forward": jumped, "fed_through_update": fed}
    vd.extra["components_real"] = ["Generator<T>::update / finalize_with_options / processed_len / clone (release and debug-assertion+overflow-check builds)"]
    vd.extra["components_stub"] = ["the first n0 bytes of each stream: their effect is computed by the reference model's exact clock jump and injected through hook H3 (verif_from_state)",
                                   "reference model with frozen tables (oracle)"]
    vd.assumptions = ["injected states are states a real periodic stream reaches (validated against direct stepping in c11small and against real multi-GiB streams in the thorough tier)",
                      "the reference model is independent code with frozen copies of the Pearson and length tables"]
    return vd.finish()


SERDE_CONFIGS = ["serde", "serde_strict", "serde_buf", "serde_buf_strict", "serde_unsafe", "serde_plain", "serde_all", "serde_noalloc"]


def check_C16(ctx, tier, seed):
    vd = Verdict(ctx, "C16", tier, seed, "exploration")
    bins = build_many(ctx, SERDE_CONFIGS)
    n = 400_000 if tier == "quick" else T(10_000_000)
    per = max(2, NCPU // len(SERDE_CONFIGS))
    def one(cfg):
        sim_batch(ctx, vd, cfg, bins[cfg], "c16", n, threads=per, abort_fallback=True)
        sim_batch(ctx, vd, cfg, bins[cfg], "c16mock", n, threads=per, abort_fallback=True)
    with ThreadPoolExecutor(max_workers=len(SERDE_CONFIGS)) as ex:
        list(ex.map(one, SERDE_CONFIGS))
    # "never panics" includes the panics only a debug profile has (overflow checks, debug assertions): all serde features
    db = build(ctx, "dbg_serde_safe")
    sim_batch(ctx, vd, "dbg_serde_safe", db, "c16", n // 4, abort_fallback=True)
    sim_batch(ctx, vd, "dbg_serde_safe", db, "c16mock", n // 4, abort_fallback=True)
    dl = build(ctx, "dbg_serde_lenient")
    sim_batch(ctx, vd, "dbg_serde_lenient", dl, "c16", n // 4, abort_fallback=True)
    sim_batch(ctx, vd, "dbg_serde_lenient", dl, "c16mock", n // 4, abort_fallback=True)
    vd.extra["components_real"] = ["fast-tlsh Serialize/Deserialize impls and visitors (features serde, +strict-parser, +serde-buffered)",
                                   "serde_json 1.0.138, ciborium 0.2.2, postcard 1.1.1 (real crates)", "fast-tlsh parsers from_str_bytes / TryFrom<&[u8]> (oracle side, same build)"]
    vd.extra["components_stub"] = ["writer and reader (short I/O, EINTR, hard errors)", "the storage medium (torn tail, bit flips, substitution, garbage, duplicated prefix)",
                                   "recording layer between format crate and visitor", "scripted Byzantine Deserializer/Serializer (c16mock)"]
    vd.extra["builds"] = SERDE_CONFIGS + ["dbg_serde_safe", "dbg_serde_lenient"]
    vd.assumptions = ["the matching parser of the same build decides acceptance (the property relates the two entry points; parser correctness itself is C05/C15, not claimed)",
                      "(human-readable, bytes) and (compact, str) visitor events are 'may accept' (only the value is checked); every other non-matching event must be rejected"]
    return vd.finish()


SETUP_CONFIGS = ["default", "hooked", "hooked_dbg", "shuttle"] + SERDE_CONFIGS + MATRIX_QUICK + ALLOC_CONFIGS + ["dbg", "dbg_unsafe", "rel_unsafe", "dbg_plain", "lowmem", "hooked_lowmem", "dbg_serde",
                                                                                                               "dbg_embedded", "dbg_lowmem_simd", "dbg_bare", "dbg_sse41", "dbg_sse2", "rel_unsafe_lowmem", "dbg_serde_safe", "dbg_serde_lenient", "m_static_avx2", "dev0", "serde_noalloc", "alloc_sse41", "alloc_sse2",
                                                                                                               "m_native", "m_v2_default"]

CHECKS = {"C03": check_C03, "C07": check_C07, "C11": check_C11, "C12": check_C12, "C16": check_C16, "C17": check_C17, "C18": check_C18}


def replay(ctx, pid, path):
    doc = json.load(open(path))
    cfg = doc.get("config", "default")
    hard = cfg.endswith("+allocfail")
    cfg = cfg.split("+")[0]
    engine = doc.get("engine")
    prop = doc.get("property", pid)
    if doc.get("config_def") and cfg not in CONFIGS:
        CONFIGS[cfg] = doc["config_def"]
    def report(reproduced, detail):
        if reproduced:
            print("VIOLATION property=%s replay=%s" % (prop, path))
            print("  %s" % detail[:600])
            return 1
        print("replay of %s: no violation (%s)" % (path, detail[:300]))
        return 0
    if engine == "matrix":
        h = doc["history"]
        if h["build"] not in CONFIGS:
            CONFIGS[h["build"]] = dict(tlsh=h["features"], sim=[], rustflags=h.get("rustflags", ""))
            if h.get("profile"):
                CONFIGS[h["build"]]["profile"] = h["profile"]
        if h["reference_build"] not in CONFIGS:
            CONFIGS[h["reference_build"]] = dict(tlsh=h.get("reference_features", PLAIN), sim=[], rustflags=h.get("reference_rustflags", ""))
            if h.get("reference_profile"):
                CONFIGS[h["reference_build"]]["profile"] = h["reference_profile"]
        bins = build_many(ctx, [h["reference_build"], h["build"]])
        n = int(h["op_index"]) + 1
        a, da = transcript_of(ctx, bins[h["build"]], doc["seed"], n)
        b, db = transcript_of(ctx, bins[h["reference_build"]], doc["seed"], n)
        if a is None or b is None:
            return report(True, "a probe binary died: %s / %s" % (da, db))
        return report(a[-1] != b[-1], "op #%d: %s `%s` vs %s `%s`" % (n - 1, h["build"], a[-1], h["reference_build"], b[-1]))
    if engine == "matrix-death":
        h = doc["history"]
        if h["build"] not in CONFIGS:
            CONFIGS[h["build"]] = dict(tlsh=h["features"], sim=[], rustflags=h.get("rustflags", ""))
            if h.get("profile"):
                CONFIGS[h["build"]]["profile"] = h["profile"]
        lines, digest = transcript_of(ctx, build(ctx, h["build"]), doc["seed"], int(h.get("count", 20000)))
        return report(lines is None, digest[:400])
    if engine == "miri":
        h = doc["history"]
        code, out, err = miri_run(ctx, h.get("config", cfg), doc["argv"], many_seeds=h.get("many_seeds"))
        bad = code != 0 or "VIOLATION" in out or "Undefined Behavior" in err
        line = next((l for l in (out + err).splitlines() if "VIOLATION" in l or "error:" in l), "exit %d" % code)
        return report(bad, line)
    if engine == "shuttle":
        b = build(ctx, "shuttle")
        sf = os.path.join(ctx.build_root, "shuttle", "replay-schedule.txt")
        open(sf, "w").write(doc.get("schedule", ""))
        code, rep, err = run_sim(ctx, b, ["shuttle-replay", "--schedule-file", sf])
        return report(code == 1, (rep or {}).get("violation", {}).get("detail", "") if code == 1 else "schedule replayed cleanly")
    if engine == "build":
        p = subprocess.run(doc["argv"], env=cargo_env({"CARGO_TARGET_DIR": os.path.join(ctx.build_root, "nostd_lib", "target0")}),
                           stdout=subprocess.PIPE, stderr=subprocess.STDOUT, text=True, errors="replace")
        return report(p.returncode != 0, "build exit %d" % p.returncode)
    if engine in ("bigstream",):
        b = build(ctx, cfg if cfg in CONFIGS else "default")
        code, rep, err = run_sim(ctx, b, doc["argv"])
        return report(code == 1, json.dumps((rep or {}).get("violations", [{}])[:1])[:500])
    if engine in ("hashfile", "strace"):
        b = build(ctx, "default")
        scratch = os.path.join(ctx.build_root, "default", "files")
        os.makedirs(scratch, exist_ok=True)
        if engine == "hashfile":
            code, rep, err = run_sim(ctx, b, ["hashfile", "--dir", scratch, "--seed", doc["seed"]])
            return report(code == 1, json.dumps((rep or {}).get("violations", [{}])[:1])[:500])
        vd = Verdict(ctx, prop, "quick", int(doc["seed"]), "exploration")
        strace_eintr(ctx, vd, b, scratch)
        return report(bool(vd.violations), vd.violations[0][2]["detail"] if vd.violations else "no difference")
    if engine in ("native-abort", "asan"):
        return replay_abort(ctx, doc, path, report)
    b = build(ctx, cfg)
    code, rep, err = run_sim(ctx, b, ["replay", path] + (["--alloc-hard-fail"] if hard else []), allow_abort=True)
    if code == 1:
        v = rep["violation"]
        return report(True, "class=%s detail=%s (recorded class reproduced: %s)" % (v["class"], v["detail"], v["class"] == doc["violation"]["class"]))
    if code != 0:
        return report(True, "process exited with %s while replaying (abort)" % code)
    if doc.get("range_argv"):
        ok = range_reproduces(ctx, b, doc)
        return report(ok, "the minimised history alone replays cleanly; re-running the recorded index range %s %s the violation (it depends on state left in the process by earlier runs)" % (" ".join(doc["range_argv"]), "reproduces" if ok else "does not reproduce"))
    return report(False, "history replayed cleanly")


def replay_abort(ctx, doc, path, report):
    """A process abort (sanitizer report, non-unwinding panic, signal): re-run the same index range in a
    fresh process (the heap layout a native crash depends on is approximately that of the original run)."""
    cfg = doc["config"]
    b = build(ctx, cfg)
    env = dict(os.environ, ASAN_OPTIONS="detect_leaks=0:abort_on_error=1") if cfg.startswith("asan") else None
    code, rep, err = run_sim(ctx, b, doc["argv"], allow_abort=True, env=env)
    if code == 1:
        return report(True, json.dumps(rep.get("violations", [{}])[0].get("detail", ""))[:400])
    return report(code != 0, "exit %s: %s" % (code, err[-400:].replace("\n", " | ")))


def selftest(ctx, seeds=(1, 20260926, 77), n=2000):
    """Determinism proof: every scenario, several VERIF_SEED values, each batch executed in separate processes at
    worker counts 1 and 16 and twice at 16; the event-log digest (order-independent sum over runs of
    hash(index, history digest, outcome digest, verdict)), the distinct counts and all counters must be identical."""
    plan = [("default", ["c03", "c12", "c17api", "c17reader", "c11small"]), ("hooked", ["c11", "c07cpu"]),
            ("serde_strict", ["c16", "c16mock"]), ("alloc_default", ["c18"])]
    bins = build_many(ctx, [k for k, _ in plan] + ["shuttle"])
    bad = 0
    total = 0
    def fingerprint(rep):
        # the simulated-CPU mask is process-wide, so c11 applies it only in single-threaded workers (the checks always run
        # c11 that way); its reboot counters therefore exist only at worker count 1 -- by design, not a divergence
        counters = {k: v for k, v in rep["counters"].items() if not k.startswith("fault.reboot_on_cpu")}
        return (rep["log_digest"], rep["distinct"], rep["distinct_nontrivial"], rep["distinct_states"], json.dumps(counters, sort_keys=True), rep["violation_count"])
    for cfg, scens in plan:
        for sc in scens:
            for seed in seeds:
                fps = []
                for threads in (1, 16, 16):
                    cnt = n if sc not in ("c11",) else n // 4
                    code, rep, err = run_sim(ctx, bins[cfg], ["batch", sc, "--seed", seed, "--count", cnt, "--threads", threads])
                    fps.append(fingerprint(rep))
                total += 1
                if len(set(fps)) != 1:
                    bad += 1
                    print("NONDETERMINISM %s/%s seed %s: %s" % (cfg, sc, seed, fps))
    # shuttle: same seed twice
    for seed in seeds:
        outs = []
        for rep_i in range(2):
            d = os.path.join(ctx.build_root, "shuttle", "selftest-%d" % rep_i)
            shutil.rmtree(d, ignore_errors=True)
            os.makedirs(d)
            code, rep, err = run_sim(ctx, bins["shuttle"], ["shuttle", "--seed", seed, "--iters", 3000, "--sched", "pct" if seed % 2 else "random", "--dir", d])
            outs.append((rep["evaluations"], rep["distinct"], json.dumps(rep["counters"], sort_keys=True), json.dumps(rep["samples"], sort_keys=True)))
        total += 1
        if outs[0] != outs[1]:
            bad += 1
            print("NONDETERMINISM shuttle seed %s" % seed)
    print("selftest: %d (scenario, seed) cells x 3 executions (1 and 16 workers, separate processes), %d runs each: %d nondeterministic" % (total, n, bad))
    return 2 if bad else 0


def main(verif, argv):
    ctx = Ctx(verif)
    if not argv:
        print(__doc__)
        return 2
    seed = int(os.environ.get("VERIF_SEED", DEFAULT_SEED))
    try:
        if argv[0] == "setup":
            build_many(ctx, SETUP_CONFIGS)
            # Miri: build the interpreter sysroot and the crates once per configuration used by the quick tiers
            with ThreadPoolExecutor(max_workers=4) as ex:
                list(ex.map(lambda k: miri_run(ctx, k, ["batch", "c17api", "--count", 0, "--threads", 1]), ["miri_sse2", "miri_sse41", "miri_avx2", "miri_unsafe_sse2", "miri_unsafe_lowmem", "miri_ssse3"]))
            return 0
        if argv[0] == "selftest":
            return selftest(ctx)
        if argv[0] == "clean":
            shutil.rmtree(ctx.build_root, ignore_errors=True)
            return 0
        pid = argv[0]
        if pid not in CHECKS:
            print("unknown property %s" % pid, file=sys.stderr)
            return 2
        if len(argv) >= 3 and argv[1] == "--replay":
            return replay(ctx, pid, argv[2])
        tier = argv[1] if len(argv) > 1 else os.environ.get("VERIF_TIER", "quick")
        if tier not in ("quick", "thorough"):
            print("tier must be quick or thorough", file=sys.stderr)
            return 2
        return CHECKS[pid](ctx, tier, seed)
    except HarnessError as e:
        print("HARNESS-ERROR: %s" % e, file=sys.stderr)
        return 2
