//! C12, file part: hash_file / hash_file_for on real files (the kernel read path is real).
//!
//!   sim hashfile --dir D --seed S      creates files of threshold sizes in D, compares hash_file* with
//!                                      hash_buf*(fs::read), plus missing path / directory
//!   sim hashfile-one --path P          prints the rendered result for one file (used under strace with
//!                                      EINTR injected into the N-th real read(2) of that file)

use crate::kinds::{render, Kind};
use crate::prng::Rng;
use crate::with_kind;
use serde_json::{json, Value};
use std::io::ErrorKind;

const MIB: usize = 1 << 20;

fn hash_file_both(v: u8, path: &std::path::Path, back: &[u8]) -> (String, String) {
    if v == 5 {
        (
            match tlsh::hash_file(path) {
                Ok(h) => h.to_string(),
                Err(tlsh::GeneratorOrIOError::GeneratorError(e)) => format!("Err({e:?})"),
                Err(tlsh::GeneratorOrIOError::IOError(e)) => format!("IOError({:?})", e.kind()),
            },
            render::<tlsh::Tlsh>(&tlsh::hash_buf(back)),
        )
    } else {
        with_kind!(v, K => (
            match <K as Kind>::hash_file(path) {
                Ok(h) => h.to_string(),
                Err(tlsh::GeneratorOrIOError::GeneratorError(e)) => format!("Err({e:?})"),
                Err(tlsh::GeneratorOrIOError::IOError(e)) => format!("IOError({:?})", e.kind()),
            },
            render::<<K as Kind>::H>(&<K as Kind>::hash_buf(back)),
        ))
    }
}

pub fn one(path: &str) -> String {
    let p = std::path::Path::new(path);
    match tlsh::hash_file(p) {
        Ok(h) => format!("{h}"),
        Err(tlsh::GeneratorOrIOError::GeneratorError(e)) => format!("Err({e:?})"),
        Err(tlsh::GeneratorOrIOError::IOError(e)) => format!("IOError({:?}, os={:?})", e.kind(), e.raw_os_error()),
    }
}

pub fn main(dir: &str, seed: u64) -> (i32, Value) {
    let t0 = std::time::Instant::now();
    std::fs::create_dir_all(dir).expect("scratch dir");
    let mut r = Rng::new(seed);
    let mut sizes = vec![0usize, 1, 4, 5, 9, 10, 49, 50, 51, 127, 128, 4095, 4096, 4097, 8192, 65535, 65536, 65537, MIB - 4097, MIB - 4096, MIB - 4095, MIB - 1, MIB, MIB + 1, 2 * MIB - 1, 2 * MIB, 2 * MIB + 1, 3 * MIB - 1, 3 * MIB, 3 * MIB + 1, 3 * MIB + 7, 4 * MIB, 4 * MIB + 1, 5 * MIB + 3];
    for _ in 0..6 {
        sizes.push(r.range(1, 300_000) as usize);
        sizes.push(r.range(MIB as u64 - 9000, MIB as u64 + 9000) as usize);
    }
    sizes.push(r.range(MIB as u64, 4 * MIB as u64) as usize);
    let mut checks = 0u64;
    let mut viol: Vec<Value> = Vec::new();
    let mut fed = 0u64;
    #[allow(unused_assignments)]
    let mut path_kinds = 0u64;
    for (i, &sz) in sizes.iter().enumerate() {
        let mut data = vec![0u8; sz];
        if i % 3 == 2 {
            data.iter_mut().enumerate().for_each(|(k, b)| *b = b"abcdefg"[k % 7]);
        } else {
            r.fill(&mut data);
        }
        // file names: plain, with spaces / non-ASCII, and NOT valid UTF-8 (paths are byte strings on this platform)
        let fname: std::ffi::OsString = match i % 4 {
            1 => format!("f {i} \u{e9}\u{4e2d} {sz}.bin").into(),
            2 => {
                use std::os::unix::ffi::OsStringExt;
                let mut b = format!("f{i}_{sz}_").into_bytes();
                b.extend_from_slice(&[0xff, 0xfe, 0x80, b'.', b'b']);
                std::ffi::OsString::from_vec(b)
            }
            _ => format!("f{i}_{sz}.bin").into(),
        };
        let path = std::path::Path::new(dir).join(fname);
        std::fs::write(&path, &data).expect("write scratch file");
        fed += sz as u64;
        let back = std::fs::read(&path).expect("read back");
        for v in 0..6u8 {
            // every other file is hashed on a thread with a small stack (128 KiB): the helpers must not need megabytes of stack
            let small_stack = i % 2 == 1;
            let (got, want) = if small_stack {
                let p2 = path.clone();
                let b2 = &back;
                std::thread::scope(|sc| {
                    std::thread::Builder::new()
                        .stack_size(128 * 1024)
                        .spawn_scoped(sc, move || hash_file_both(v, &p2, b2))
                        .expect("spawn small-stack thread")
                        .join()
                        .unwrap_or_else(|_| ("PANIC on a small-stack thread".to_string(), String::new()))
                })
            } else if v == 5 {
                (
                    match tlsh::hash_file(&path) {
                        Ok(h) => h.to_string(),
                        Err(tlsh::GeneratorOrIOError::GeneratorError(e)) => format!("Err({e:?})"),
                        Err(tlsh::GeneratorOrIOError::IOError(e)) => format!("IOError({:?})", e.kind()),
                    },
                    render::<tlsh::Tlsh>(&tlsh::hash_buf(&back)),
                )
            } else {
                with_kind!(v, K => (
                    match <K as Kind>::hash_file(&path) {
                        Ok(h) => h.to_string(),
                        Err(tlsh::GeneratorOrIOError::GeneratorError(e)) => format!("Err({e:?})"),
                        Err(tlsh::GeneratorOrIOError::IOError(e)) => format!("IOError({:?})", e.kind()),
                    },
                    render::<<K as Kind>::H>(&<K as Kind>::hash_buf(&back)),
                ))
            };
            checks += 1;
            if got != want {
                viol.push(json!({"index": i, "class": "hash-file-differs-from-contents", "detail": format!("file of {sz} bytes, api {v}: hash_file gives {got}, hash_buf(read(file)) gives {want}"),
                    "history": {"size": sz, "api": v, "seed": seed.to_string()}, "engine": "hashfile"}));
            }
        }
        let _ = std::fs::remove_file(&path);
    }
    // a file whose metadata length is 0 although it has content (procfs): a size-based fast path must not trust it
    for special in ["/proc/version", "/proc/self/status", "/proc/cpuinfo"] {
        let p = std::path::Path::new(special);
        if let Ok(back) = std::fs::read(p) {
            if special == "/proc/self/status" {
                continue; // content changes between reads
            }
            checks += 1;
            let got = match tlsh::hash_file(p) {
                Ok(h) => h.to_string(),
                Err(tlsh::GeneratorOrIOError::GeneratorError(e)) => format!("Err({e:?})"),
                Err(tlsh::GeneratorOrIOError::IOError(e)) => format!("IOError({:?})", e.kind()),
            };
            let want = render::<tlsh::Tlsh>(&tlsh::hash_buf(&back));
            let again = std::fs::read(p).map(|b| b == back).unwrap_or(false);
            if got != want && again {
                viol.push(json!({"index": 200, "class": "hash-file-differs-from-contents", "detail": format!("{special} ({} bytes, metadata length {:?}): hash_file gives {got}, hash_buf(read(file)) gives {want}", back.len(), std::fs::metadata(p).map(|m| m.len()).ok()),
                    "history": {"special": special}, "engine": "hashfile"}));
            }
        }
    }
    // path kinds: the same contents reached through different kinds of path (what open(2) accepts is what counts)
    {
        use std::io::Write;
        let mut kinds_hit = 0u64;
        let mut data = vec![0u8; 300_000 + (seed % 1000) as usize];
        r.fill(&mut data);
        let big = { let mut b = vec![0u8; MIB + MIB / 2 + 17]; r.fill(&mut b); b };
        let base = std::fs::canonicalize(dir).unwrap_or_else(|_| std::path::PathBuf::from(dir)).join("kinds");
        let _ = std::fs::remove_dir_all(&base);
        std::fs::create_dir_all(base.join("sub/deeper")).expect("scratch dir");
        let target = base.join("target.bin");
        std::fs::write(&target, &data).expect("write");
        let want = render::<tlsh::Tlsh>(&tlsh::hash_buf(&data));
        let want_big = render::<tlsh::Tlsh>(&tlsh::hash_buf(&big));
        let show = |p: &std::path::Path| {
            crate::framework::guarded(|| match tlsh::hash_file(p) {
                Ok(h) => h.to_string(),
                Err(tlsh::GeneratorOrIOError::GeneratorError(e)) => format!("Err({e:?})"),
                Err(tlsh::GeneratorOrIOError::IOError(e)) => format!("IOError({:?})", e.kind()),
            })
            .unwrap_or_else(|p| format!("PANIC: {p}"))
        };
        let mut cases: Vec<(String, std::path::PathBuf, String)> = Vec::new();
        // symlink, symlink to symlink, path through `..` and `.` components, doubled separators
        let _ = std::os::unix::fs::symlink(&target, base.join("link1"));
        let _ = std::os::unix::fs::symlink("link1", base.join("link2"));
        cases.push(("symlink".into(), base.join("link1"), want.clone()));
        cases.push(("symlink-to-relative-symlink".into(), base.join("link2"), want.clone()));
        cases.push(("dot-dot components".into(), base.join("sub/deeper/../../target.bin"), want.clone()));
        cases.push(("dot and doubled separators".into(), std::path::PathBuf::from(format!("{}//./target.bin", base.display())), want.clone()));
        // an open but already unlinked file, reachable only through its descriptor
        let unl = base.join("unlinked.bin");
        std::fs::write(&unl, &big).expect("write");
        let keep = std::fs::File::open(&unl).expect("open");
        std::fs::remove_file(&unl).expect("unlink");
        {
            use std::os::fd::AsRawFd;
            cases.push(("unlinked file through /proc/self/fd/N".into(), std::path::PathBuf::from(format!("/proc/self/fd/{}", keep.as_raw_fd())), want_big.clone()));
            cases.push(("unlinked file through /dev/fd/N".into(), std::path::PathBuf::from(format!("/dev/fd/{}", keep.as_raw_fd())), want_big.clone()));
        }
        // a file on which ANOTHER open handle holds an exclusive advisory lock: advisory locks do not stop readers
        let locked = base.join("locked.bin");
        std::fs::write(&locked, &data).expect("write");
        let lock_holder = std::fs::OpenOptions::new().read(true).write(true).open(&locked).expect("open");
        if lock_holder.try_lock().is_ok() {
            cases.push(("file exclusively flock()ed through another handle".into(), locked.clone(), want.clone()));
        }
        // a file somebody else has open for appending, and a read-only (0o400) file
        let _appender = std::fs::OpenOptions::new().append(true).open(&target);
        let ro = base.join("readonly.bin");
        std::fs::write(&ro, &data).expect("write");
        {
            use std::os::unix::fs::PermissionsExt;
            let _ = std::fs::set_permissions(&ro, std::fs::Permissions::from_mode(0o400));
        }
        cases.push(("read-only file (mode 0400)".into(), ro, want.clone()));
        for (what, p, want) in &cases {
            // the platform's own view decides whether the case exists here (e.g. no /dev/fd in a minimal container)
            match std::fs::read(p) {
                Ok(b) if render::<tlsh::Tlsh>(&tlsh::hash_buf(&b)) == *want => {}
                _ => continue,
            }
            checks += 1;
            kinds_hit += 1;
            let got = show(p);
            if &got != want {
                viol.push(json!({"index": 300, "class": "hash-file-differs-from-contents", "detail": format!("path kind `{what}` ({}): hash_file gives {got}, hash_buf(contents) gives {want}", p.display()),
                    "history": {"path_kind": what}, "engine": "hashfile"}));
            }
        }
        drop(keep);
        drop(lock_holder);
        // a pipe (not seekable, no size) reached through its descriptor, fed by another thread in odd-sized writes
        if let (Ok((rd, mut wr)), true) = (std::io::pipe(), std::path::Path::new("/proc/self/fd/0").parent().map(|d| d.is_dir()).unwrap_or(false)) {
            use std::os::fd::AsRawFd;
            let p = std::path::PathBuf::from(format!("/proc/self/fd/{}", rd.as_raw_fd()));
            let src = big.clone();
            let t = std::thread::spawn(move || {
                let mut off = 0usize;
                let mut k = 1usize;
                while off < src.len() {
                    let n = (k * 7919 % 70_000 + 1).min(src.len() - off);
                    if wr.write_all(&src[off..off + n]).is_err() {
                        break;
                    }
                    off += n;
                    k += 1;
                }
            });
            checks += 1;
            kinds_hit += 1;
            let got = show(&p);
            drop(rd);
            let _ = t.join();
            if got != want_big {
                viol.push(json!({"index": 301, "class": "hash-file-differs-from-contents", "detail": format!("a pipe carrying {} bytes in odd-sized writes, opened through {}: hash_file gives {got}, hash_buf(contents) gives {want_big}", big.len(), p.display()),
                    "history": {"path_kind": "pipe"}, "engine": "hashfile"}));
            }
        }
        // relative paths (this probe is its own process: changing the working directory affects nobody else)
        if std::env::set_current_dir(base.join("sub")).is_ok() {
            for rel in ["../target.bin", "deeper/../../link2", "./../target.bin"] {
                if std::fs::read(rel).ok().as_deref() != Some(&data[..]) {
                    continue;
                }
                checks += 1;
                kinds_hit += 1;
                let got = show(std::path::Path::new(rel));
                if got != want {
                    viol.push(json!({"index": 302, "class": "hash-file-differs-from-contents", "detail": format!("relative path `{rel}`: hash_file gives {got}, hash_buf(contents) gives {want}"),
                        "history": {"path_kind": "relative", "path": rel}, "engine": "hashfile"}));
                }
            }
            let _ = std::env::set_current_dir("/");
        }
        // the process's current directory has been removed (a daemon whose start directory was cleaned up): a missing
        // relative path is still an I/O error, an absolute path still works
        let gone = base.join("gone");
        if std::fs::create_dir_all(&gone).is_ok() && std::env::set_current_dir(&gone).is_ok() && std::fs::remove_dir(&gone).is_ok() {
            for (what, p, want_io) in [("missing relative path while the current directory is gone", std::path::PathBuf::from("no-such-file.bin"), true),
                                       ("absolute path while the current directory is gone", target.clone(), false)] {
                checks += 1;
                kinds_hit += 1;
                let got = show(&p);
                let ok = if want_io { got.starts_with("IOError(") } else { got == want };
                if !ok {
                    viol.push(json!({"index": 305, "class": if got.starts_with("PANIC") { "panic:hash_file" } else { "hash-file-differs-from-contents" },
                        "detail": format!("{what}: hash_file gives {got}, want {}", if want_io { "an I/O error".to_string() } else { want.clone() }), "history": {"path_kind": what}, "engine": "hashfile"}));
                }
            }
            let _ = std::env::set_current_dir("/");
        }
        // paths that must give an I/O error: dangling symlink, symlink loop, a file used as a directory, an empty path
        let _ = std::os::unix::fs::symlink("nowhere", base.join("dangling"));
        let _ = std::os::unix::fs::symlink("loop_b", base.join("loop_a"));
        let _ = std::os::unix::fs::symlink("loop_a", base.join("loop_b"));
        for (what, p) in [("dangling symlink", base.join("dangling")), ("symlink loop", base.join("loop_a")), ("file used as a directory", base.join("target.bin/x")), ("empty path", std::path::PathBuf::new())] {
            if std::fs::read(&p).is_ok() {
                continue;
            }
            checks += 1;
            kinds_hit += 1;
            let got = show(&p);
            if !got.starts_with("IOError(") {
                viol.push(json!({"index": 303, "class": "bad-path-not-io-error", "detail": format!("{what}: hash_file gives {got}, want an I/O error"), "history": {"path_kind": what}, "engine": "hashfile"}));
            }
        }
        // the null device: an empty stream
        checks += 1;
        let got = show(std::path::Path::new("/dev/null"));
        let want_empty = render::<tlsh::Tlsh>(&tlsh::hash_buf(&[]));
        if got != want_empty {
            viol.push(json!({"index": 304, "class": "hash-file-differs-from-contents", "detail": format!("/dev/null: hash_file gives {got}, hash_buf(empty) gives {want_empty}"), "history": {"path_kind": "/dev/null"}, "engine": "hashfile"}));
        }
        path_kinds = kinds_hit + 1;
        let _ = std::fs::remove_dir_all(&base);
    }
    // missing path and a directory
    let missing = std::path::Path::new(dir).join("does-not-exist.bin");
    checks += 2;
    match tlsh::hash_file(&missing) {
        Err(tlsh::GeneratorOrIOError::IOError(e)) if e.kind() == ErrorKind::NotFound => {}
        other => viol.push(json!({"index": 100, "class": "missing-path-not-io-error", "detail": format!("hash_file(missing path) = {:?}", other.map(|h| h.to_string())), "history": {"case": "missing"}, "engine": "hashfile"})),
    }
    match tlsh::hash_file(std::path::Path::new(dir)) {
        Err(tlsh::GeneratorOrIOError::IOError(_)) => {}
        other => viol.push(json!({"index": 101, "class": "directory-not-io-error", "detail": format!("hash_file(directory) = {:?}", other.map(|h| h.to_string())), "history": {"case": "directory"}, "engine": "hashfile"})),
    }
    let n = viol.len();
    let rep = json!({"scenario": "c12file", "property": "C12", "seed": seed.to_string(), "evaluations": checks, "distinct": checks, "distinct_nontrivial": checks,
        "rule": "real files of threshold sizes (0 .. >3 MiB) x six entry points, each compared with hash_buf(fs::read(file)); plus path kinds (symlinks, dot-dot, relative, unlinked file and pipe through /proc/self/fd, bad paths), missing path and directory",
        "counters": {"sim_bytes_fed": fed * 6, "probe.file_gt_1MiB": sizes.iter().filter(|&&x| x > MIB).count(), "probe.file_eq_1MiB": 1, "fault.path_kind_cases": path_kinds}, "samples": [{"sizes": sizes.clone()}],
        "violation_count": n, "violations": viol, "wall_s": t0.elapsed().as_secs_f64()});
    (if n > 0 { 1 } else { 0 }, rep)
}

/// One sparse file of `total` zero bytes through hash_file_for::<variant>: the expected result comes from the
/// reference model of a constant stream (TooLargeInput above 4,224,281,216 bytes).
pub fn big_file(dir: &str, variant: u8, total: u64) -> (i32, Value) {
    use crate::model::{MOpts, Model, VARIANTS};
    let t0 = std::time::Instant::now();
    std::fs::create_dir_all(dir).expect("scratch dir");
    let path = std::path::Path::new(dir).join(format!("sparse_{total}.bin"));
    {
        let f = std::fs::File::create(&path).expect("create sparse file");
        f.set_len(total).expect("set_len");
    }
    let got = crate::framework::guarded(|| {
        with_kind!(variant, K => match <K as Kind>::hash_file(&path) {
            Ok(h) => h.to_string(),
            Err(tlsh::GeneratorOrIOError::GeneratorError(e)) => format!("Err({e:?})"),
            Err(tlsh::GeneratorOrIOError::IOError(e)) => format!("IOError({:?})", e.kind()),
        })
    });
    let _ = std::fs::remove_file(&path);
    let v = VARIANTS[variant as usize % 5];
    let want = Model::at_offset(v, &[0u8], total.min(crate::model::CUTOFF), 400_000).map(|mut m| {
        if total > m.n {
            m.skip(total - m.n);
        }
        crate::c11::render_model(&m.finalize(MOpts::from_bits(0)))
    });
    let hist = json!({"variant_id": variant, "total": total.to_string(), "via": "hash_file_for", "content": "sparse zeros"});
    let mut viol = Vec::new();
    match (&got, &want) {
        (Err(p), _) => viol.push(json!({"index": 300, "class": format!("panic:{}", crate::framework::panic_class(p)), "detail": format!("panic: {p}"), "history": hist, "engine": "bigstream"})),
        (Ok(g), Some(w)) if g != w => viol.push(json!({"index": 300, "class": "hash-file-differs-from-contents", "detail": format!("sparse file of {total} zero bytes through hash_file_for: got {g}, reference {w}"), "history": hist, "engine": "bigstream"})),
        _ => {}
    }
    for x in viol.iter_mut() {
        x["argv"] = json!(["hashfile-big", "--dir", dir, "--variant", variant.to_string(), "--total", total.to_string()]);
    }
    let n = viol.len();
    let rep = json!({"scenario": "c12bigfile", "property": "C12", "seed": "0", "evaluations": 1, "distinct": 1, "distinct_nontrivial": 1,
        "rule": "one sparse file larger than the generator's limit through hash_file_for, compared with the reference model of a constant stream",
        "counters": {"sim_bytes_fed": total, "probe.file_gt_MAX": (total > 4_224_281_216) as u64}, "samples": [hist], "violation_count": n, "violations": viol, "wall_s": t0.elapsed().as_secs_f64()});
    (if n > 0 { 1 } else { 0 }, rep)
}

extern "C" {
    fn setuid(uid: u32) -> i32;
    fn setgid(gid: u32) -> i32;
    fn geteuid() -> u32;
}

/// hash_file on a world-readable file OWNED BY ANOTHER USER, from an unprivileged process (uid/gid 65534 after
/// dropping root; open flags that need ownership / CAP_FOWNER fail there).  Runs in its own process.
pub fn unprivileged(path: &str) -> (i32, Value) {
    let t0 = std::time::Instant::now();
    let back = std::fs::read(path).ok();
    // SAFETY: plain libc calls without pointers; the process only hashes one file afterwards and exits.
    let dropped = unsafe {
        if geteuid() == 0 {
            setgid(65534) == 0 && setuid(65534) == 0
        } else {
            true
        }
    };
    let hist = json!({"path": path, "dropped_privileges": dropped});
    let mut viol = Vec::new();
    let mut checks = 0;
    if dropped {
        if let Some(back) = back {
            if std::fs::read(path).is_ok() {
                checks = 1;
                let got = match tlsh::hash_file(path) {
                    Ok(h) => h.to_string(),
                    Err(tlsh::GeneratorOrIOError::GeneratorError(e)) => format!("Err({e:?})"),
                    Err(tlsh::GeneratorOrIOError::IOError(e)) => format!("IOError({:?})", e.kind()),
                };
                let want = render::<tlsh::Tlsh>(&tlsh::hash_buf(&back));
                if got != want {
                    viol.push(json!({"index": 400, "class": "hash-file-differs-from-contents", "detail": format!("unprivileged process, {path} (readable, owned by another user): hash_file gives {got}, hash_buf(read(file)) gives {want}"),
                        "history": hist, "engine": "bigstream", "argv": ["hashfile-unpriv", "--path", path]}));
                }
            }
        }
    }
    let n = viol.len();
    let rep = json!({"scenario": "c12unpriv", "property": "C12", "seed": "0", "evaluations": checks.max(1), "distinct": 1, "distinct_nontrivial": 1,
        "rule": "hash_file on a readable file owned by another user, from a process without privileges",
        "counters": {"fault.unprivileged_process": checks}, "samples": [hist], "violation_count": n, "violations": viol, "wall_s": t0.elapsed().as_secs_f64()});
    (if n > 0 { 1 } else { 0 }, rep)
}
