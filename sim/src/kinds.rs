//! The five hash variants behind one trait (fast-tlsh's own bound,
//! `ConstrainedFuzzyHashType`, lives in a private module and cannot be named here).

use tlsh::generate::{Generator, GeneratorOptions};
use tlsh::length::DataLengthProcessingMode;
use tlsh::{FuzzyHashType, GeneratorError, GeneratorType, ParseError};

pub const VARIANT_NAMES: [&str; 5] = ["Short", "Normal", "NormalWithLongChecksum", "Long", "LongWithLongChecksum"];

pub trait Kind: 'static {
    type H: FuzzyHashType
        + Clone
        + Copy
        + PartialEq
        + Eq
        + core::fmt::Debug
        + core::fmt::Display
        + for<'a> TryFrom<&'a [u8], Error = ParseError>;
    type G: GeneratorType<Output = Self::H> + Clone + core::fmt::Debug + Default;
    const NAME: &'static str;
    const ID: u8;
    const BUCKETS: usize;
    const CKSUM: usize;
    fn new_gen() -> Self::G;
    /// copies the checksum bytes (accessor `checksum().data()`), returns their number; no allocation
    fn ck_data(h: &Self::H, out: &mut [u8; 3]) -> usize;
    /// copies the body bytes (accessor `body().data()`), returns their number; no allocation
    fn body_data(h: &Self::H, out: &mut [u8; 64]) -> usize;
    fn hash_buf(b: &[u8]) -> Result<Self::H, GeneratorError>;
    fn compare_str(a: &str, b: &str) -> Result<u32, tlsh::ParseErrorEither>;
    #[cfg(not(feature = "nostd"))]
    fn hash_stream<R: std::io::Read>(r: &mut R) -> Result<Self::H, tlsh::GeneratorOrIOError>;
    #[cfg(not(feature = "nostd"))]
    fn hash_file(p: &std::path::Path) -> Result<Self::H, tlsh::GeneratorOrIOError>;
}

macro_rules! kind {
    ($m:ident, $t:ident, $id:expr, $b:expr, $c:expr) => {
        pub struct $m;
        impl Kind for $m {
            type H = tlsh::hashes::$t;
            type G = Generator<tlsh::hashes::$t>;
            const NAME: &'static str = stringify!($t);
            const ID: u8 = $id;
            const BUCKETS: usize = $b;
            const CKSUM: usize = $c;
            fn new_gen() -> Self::G {
                Generator::<tlsh::hashes::$t>::new()
            }
            fn ck_data(h: &Self::H, out: &mut [u8; 3]) -> usize {
                let d = h.checksum().data();
                out[..d.len()].copy_from_slice(d);
                d.len()
            }
            fn body_data(h: &Self::H, out: &mut [u8; 64]) -> usize {
                let d = h.body().data();
                out[..d.len()].copy_from_slice(d);
                d.len()
            }
            fn hash_buf(b: &[u8]) -> Result<Self::H, GeneratorError> {
                tlsh::hash_buf_for::<tlsh::hashes::$t>(b)
            }
            fn compare_str(a: &str, b: &str) -> Result<u32, tlsh::ParseErrorEither> {
                tlsh::compare_with::<tlsh::hashes::$t>(a, b)
            }
            #[cfg(not(feature = "nostd"))]
            fn hash_stream<R: std::io::Read>(r: &mut R) -> Result<Self::H, tlsh::GeneratorOrIOError> {
                tlsh::hash_stream_for::<tlsh::hashes::$t, R>(r)
            }
            #[cfg(not(feature = "nostd"))]
            fn hash_file(p: &std::path::Path) -> Result<Self::H, tlsh::GeneratorOrIOError> {
                tlsh::hash_file_for::<tlsh::hashes::$t, _>(p)
            }
        }
    };
}
kind!(KShort, Short, 0, 48, 1);
kind!(KNormal, Normal, 1, 128, 1);
kind!(KNormalL, NormalWithLongChecksum, 2, 128, 3);
kind!(KLong, Long, 3, 256, 1);
kind!(KLongL, LongWithLongChecksum, 4, 256, 3);

/// `with_kind!(id, K => expr)` evaluates `expr` with `K` bound to the marker type of variant `id`.
#[macro_export]
macro_rules! with_kind {
    ($id:expr, $K:ident => $body:expr) => {
        match $id {
            0 => {
                type $K = $crate::kinds::KShort;
                $body
            }
            1 => {
                type $K = $crate::kinds::KNormal;
                $body
            }
            2 => {
                type $K = $crate::kinds::KNormalL;
                $body
            }
            3 => {
                type $K = $crate::kinds::KLong;
                $body
            }
            _ => {
                type $K = $crate::kinds::KLongL;
                $body
            }
        }
    };
}

/// The 32 option settings, indexed 0..32:
/// bit0 conservative, bit1 pure-integer q-ratio, bit2 allow small, bit3 allow half, bit4 allow quarter.
pub fn options(o: u8) -> GeneratorOptions {
    let mut g = GeneratorOptions::new();
    if o.count_ones() % 2 == 0 {
        // half of the settings are reached by first setting every option to the OPPOSITE value on the same object
        // (a setter that only ever turns something on, or remembers an earlier value, shows up here)
        apply_options(&mut g, !o);
    }
    apply_options(&mut g, o);
    g
}
fn apply_options(g: &mut GeneratorOptions, o: u8) {
    g.length_processing_mode(if o & 1 != 0 {
        DataLengthProcessingMode::Conservative
    } else {
        DataLengthProcessingMode::Optimistic
    });
    g.pure_integer_qratio_computation(o & 2 != 0);
    g.allow_small_size_files(o & 4 != 0);
    g.allow_statistically_weak_buckets_half(o & 8 != 0);
    g.allow_statistically_weak_buckets_quarter(o & 16 != 0);
}
/// Most permissive options with integer (28|2) or f32 (28) ratios.
pub const OPT_PERMISSIVE_INT: u8 = 4 | 8 | 16 | 2;
pub const OPT_PERMISSIVE_F32: u8 = 4 | 8 | 16;

/// Canonical, comparable rendering of a finalisation result.
pub fn render<H: FuzzyHashType>(r: &Result<H, GeneratorError>) -> String {
    match r {
        Ok(h) => {
            let mut buf = [0u8; 160];
            let n = h
                .store_into_str_bytes(&mut buf, tlsh::HexStringPrefix::WithVersion)
                .expect("160 bytes hold every variant");
            String::from_utf8_lossy(&buf[..n]).into_owned()
        }
        Err(e) => format!("Err({e:?})"),
    }
}
