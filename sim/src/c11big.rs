//! C11 thorough tier: REAL multi-GiB streams through update() (no state injection needed; with the
//! hooked build the internal state is additionally compared with the model's clock jump, which
//! validates both the jump and hook H3).
//!
//!   sim bigstream --variant V --pattern HEX --seed S [--single-slice N]
//! prints a JSON report; exit 1 on a violation.

use crate::c11::{compare_pub, render_model};
use crate::kinds::Kind;
use crate::model::{MOpts, Model, MAX_INPUT, VARIANTS};
use crate::prng::Rng;
use crate::with_kind;
use serde_json::{json, Value};
use tlsh::GeneratorType;

const P32: u64 = 1 << 32;
const JUMP_CAP: u64 = 400_000;

struct Out {
    checks: u64,
    fed: u64,
    violation: Option<(String, String)>,
    state_checks: u64,
}

#[cfg(feature = "hooks")]
fn state_matches<K: Kind>(g: &K::G, m: &Model) -> Option<String>
where
    K::G: tlsh::generate::VerifState,
{
    use tlsh::generate::VerifState;
    let (b, len, tail, tail_len, ck) = g.verif_state();
    let nb = K::BUCKETS.max(if K::BUCKETS == 48 { 49 } else { 256 });
    let _ = nb;
    // effective buckets must agree (physical ones beyond the effective range are never observable)
    if b[..K::BUCKETS] != m.buckets[..K::BUCKETS] {
        let i = (0..K::BUCKETS).find(|&i| b[i] != m.buckets[i]).unwrap();
        return Some(format!("bucket {i}: generator {} vs model {}", b[i], m.buckets[i]));
    }
    if m.n >= 4 && m.n < P32 && (len as u64 + 4 != m.n || tail_len != 4 || tail != m.last) {
        return Some(format!("len/tail: generator ({len},{tail_len},{tail:?}) vs model n={} last={:?}", m.n, m.last));
    }
    if ck[..K::CKSUM] != m.ck[..K::CKSUM] {
        return Some(format!("checksum: generator {:?} vs model {:?}", &ck[..K::CKSUM], &m.ck[..K::CKSUM]));
    }
    None
}

fn run<K: Kind>(pattern: &[u8], seed: u64, single: Option<u64>) -> Out
where
    K::G: MaybeState,
{
    let v = VARIANTS[K::ID as usize];
    let pl = pattern.len();
    let mut out = Out { checks: 0, fed: 0, violation: None, state_checks: 0 };
    let mut fnv = crate::prng::Fnv::new();
    let mut st = crate::framework::Stats::default();
    let all: Vec<u8> = (0..32).collect();
    if let Some(total) = single {
        // one update() call with a slice of `total` bytes (possibly longer than u32::MAX)
        assert!(pl == 1, "single-slice mode uses a constant stream");
        let big = if pattern[0] == 0 { vec![0u8; total as usize] } else { vec![pattern[0]; total as usize] };
        let mut g = K::new_gen();
        g.update(&big);
        out.fed = total;
        let Some(m) = Model::at_offset(v, pattern, total.min(crate::model::CUTOFF), JUMP_CAP) else { return out };
        let mut m = m;
        if total > m.n {
            m.skip(total - m.n);
        }
        out.checks += 1;
        if let Some(vi) = compare_pub::<K>(&g, &m, &all, &mut fnv, &mut st) {
            out.violation = Some((vi.class, format!("single slice of {total} bytes: {}", vi.detail)));
        }
        // the one-call convenience on the same slice (round 9, seed C11-25): same answer as the generator it wraps
        if out.violation.is_none() {
            use tlsh::GeneratorType;
            let easy = crate::kinds::render::<K::H>(&K::hash_buf(&big));
            let direct = crate::kinds::render::<K::H>(&g.finalize());
            out.checks += 1;
            if easy != direct {
                out.violation = Some(("hash-buf-differs-from-generator-on-huge-slice".into(), format!("single slice of {total} bytes: hash_buf_for gives {easy}, update + finalize gives {direct}")));
            }
        }
        return out;
    }
    // chunked real stream
    let blen = ((16usize << 20) / pl) * pl;
    let buf: Vec<u8> = (0..blen + pl).map(|i| pattern[i % pl]).collect();
    let mut r = Rng::new(seed);
    let mut g = K::new_gen();
    let mut n: u64 = 0;
    let mut feed_to = |g: &mut K::G, n: &mut u64, target: u64, r: &mut Rng| {
        while *n < target {
            let phase = (*n % pl as u64) as usize;
            let max = (target - *n).min(blen as u64);
            let len = match r.below(10) {
                0 => r.range(1, 7).min(max),
                1..=3 => r.range(1, max),
                _ => max,
            } as usize;
            g.update(&buf[phase..phase + len]);
            *n += len as u64;
        }
    };
    let marks = [MAX_INPUT, P32];
    for (mi, mark) in marks.iter().enumerate() {
        let below = mark - 600 - (seed % 300);
        feed_to(&mut g, &mut n, below, &mut r);
        out.fed = n;
        // checkpoint: model jumps here in closed form
        let Some(mut m) = Model::at_offset(v, pattern, n, JUMP_CAP) else {
            out.violation = None;
            return out;
        };
        out.checks += 1;
        if let Some(d) = <K::G as MaybeState>::state_diff::<K>(&g, &m) {
            out.violation = Some(("state-differs-from-model-jump".into(), format!("after {n} real bytes: {d}")));
            return out;
        }
        out.state_checks += <K::G as MaybeState>::HAS as u64;
        if let Some(vi) = compare_pub::<K>(&g, &m, &all, &mut fnv, &mut st) {
            out.violation = Some((vi.class, format!("checkpoint below mark {mark}: {}", vi.detail)));
            return out;
        }
        // walk across the mark: single bytes and odd pieces, with a clone taken on the way
        let mut parked = None;
        while n < mark + 40 {
            let phase = (n % pl as u64) as usize;
            let len = match r.below(6) {
                0 => 0,
                1..=3 => 1,
                4 => r.range(2, 5),
                _ => r.range(6, 37),
            } as usize;
            g.update(&buf[phase..phase + len]);
            for i in 0..len {
                if m.n >= crate::model::CUTOFF {
                    m.skip(1);
                } else {
                    m.step(buf[phase + i]);
                }
            }
            n += len as u64;
            out.checks += 1;
            let near = n + 2 >= *mark && n <= mark + 6;
            if let Some(vi) = compare_pub::<K>(&g, &m, if near { &all } else { &all[28..31] }, &mut fnv, &mut st) {
                out.violation = Some((vi.class, format!("walking across mark {mark} (index {mi}): {}", vi.detail)));
                return out;
            }
            if parked.is_none() && n + 3 >= *mark {
                parked = Some((g.clone(), m.clone()));
            }
        }
        if let Some((pg, pm)) = parked {
            if let Some(vi) = compare_pub::<K>(&pg, &pm, &all, &mut fnv, &mut st) {
                out.violation = Some((format!("clone-{}", vi.class), format!("clone parked at the mark {mark}: {}", vi.detail)));
                return out;
            }
        }
        out.fed = n;
    }
    // far beyond: more data after saturation must change nothing observable
    for _ in 0..4 {
        g.update(&buf[..blen]);
        n += blen as u64;
    }
    out.fed = n;
    let mut m = Model::new(v);
    m.n = n; // only the length is observable now
    if g.processed_len().is_some() || render_model(&m.finalize(MOpts::from_bits(30))) != crate::kinds::render(&g.finalize_with_options(&crate::kinds::options(30))) {
        out.violation = Some(("too-large-boundary".into(), format!("after {n} bytes: processed_len {:?}", g.processed_len())));
    }
    out.checks += 1;
    out
}

/// The state comparison is available only in the hooked build.
pub trait MaybeState {
    const HAS: bool;
    fn state_diff<K: Kind<G = Self>>(g: &Self, m: &Model) -> Option<String>;
}
#[cfg(feature = "hooks")]
impl<T: tlsh::generate::VerifState> MaybeState for T {
    const HAS: bool = true;
    fn state_diff<K: Kind<G = Self>>(g: &Self, m: &Model) -> Option<String> {
        state_matches::<K>(g, m)
    }
}
#[cfg(not(feature = "hooks"))]
impl<T> MaybeState for T {
    const HAS: bool = false;
    fn state_diff<K: Kind<G = Self>>(_g: &Self, _m: &Model) -> Option<String> {
        None
    }
}

pub fn main(variant: u8, pattern: &[u8], seed: u64, single: Option<u64>) -> (i32, Value) {
    let t0 = std::time::Instant::now();
    let res = crate::framework::guarded(|| with_kind!(variant, K => run::<K>(pattern, seed, single)));
    let hist = json!({"variant_id": variant, "pattern": crate::data::hex(pattern), "seed": seed.to_string(), "single_slice": single});
    match res {
        Ok(o) => {
            let viol: Vec<Value> = o.violation.iter().map(|(c, d)| json!({"index": seed, "class": c, "detail": d, "history": hist, "engine": "bigstream",
                "argv": ["bigstream", "--variant", variant.to_string(), "--pattern", crate::data::hex(pattern), "--seed", seed.to_string(), "--single-slice", single.map(|x| x.to_string()).unwrap_or("0".into())]})).collect();
            let rep = json!({"scenario": "c11big", "property": "C11", "seed": seed.to_string(), "evaluations": o.checks, "distinct": o.checks, "distinct_nontrivial": o.checks,
                "rule": "real streams: one evaluation = one comparison of the real generator (fed real bytes through update()) with the reference model at a checkpoint or after a piece while walking across 4,224,281,216 / 2^32",
                "counters": {"sim_bytes_fed": o.fed, "probe.state_checked_against_model_jump": o.state_checks, "probe.real_stream_past_2^32": (o.fed > P32) as u64},
                "samples": [hist], "violation_count": viol.len(), "violations": viol, "wall_s": t0.elapsed().as_secs_f64()});
            (if o.violation.is_some() { 1 } else { 0 }, rep)
        }
        Err(p) => {
            let rep = json!({"scenario": "c11big", "property": "C11", "seed": seed.to_string(), "evaluations": 1, "distinct": 1, "distinct_nontrivial": 1, "counters": {}, "samples": [hist],
                "violation_count": 1, "violations": [{"index": seed, "class": format!("panic:{}", crate::framework::panic_class(&p)), "detail": format!("panic while feeding a real multi-GiB stream: {p}"), "history": hist, "engine": "bigstream",
                "argv": ["bigstream", "--variant", variant.to_string(), "--pattern", crate::data::hex(pattern), "--seed", seed.to_string(), "--single-slice", single.map(|x| x.to_string()).unwrap_or("0".into())]}], "wall_s": t0.elapsed().as_secs_f64()});
            (1, rep)
        }
    }
}

#[cfg(not(feature = "nostd"))]
/// C12 thorough: hash_stream_for::<K> on a generated periodic stream of `total` bytes (no memory), delivered in
/// seeded read sizes with occasional EINTR; the result must equal the reference model at that offset
/// (a hash for total <= 4,224,281,216, TooLargeInput above).
pub fn big_reader(variant: u8, pattern: &[u8], seed: u64, total: u64, fail_at_end: bool) -> (i32, Value) {
    struct Gen<'a> {
        pat: &'a [u8],
        pos: u64,
        total: u64,
        r: Rng,
        eintr: u64,
        calls: u64,
        fail_at_end: bool,
    }
    impl std::io::Read for Gen<'_> {
        fn read(&mut self, buf: &mut [u8]) -> std::io::Result<usize> {
            self.calls += 1;
            if self.fail_at_end && self.pos == self.total {
                // the stream does not end: after `total` bytes the device fails (errno 5) -- whatever the helper thinks of the
                // amount of data it has seen so far, a hard error is a hard error
                return Err(std::io::Error::from_raw_os_error(5));
            }
            if self.r.chance(1, 50) {
                self.eintr += 1;
                return Err(std::io::Error::from(std::io::ErrorKind::Interrupted));
            }
            let left = self.total - self.pos;
            let lim = match self.r.below(8) {
                0 => self.r.range(1, 4096),
                1 => self.r.range(1, buf.len().max(1) as u64),
                _ => buf.len() as u64,
            };
            let n = (buf.len() as u64).min(left).min(lim) as usize;
            let pl = self.pat.len() as u64;
            for (i, b) in buf[..n].iter_mut().enumerate() {
                *b = self.pat[((self.pos + i as u64) % pl) as usize];
            }
            self.pos += n as u64;
            Ok(n)
        }
    }
    let t0 = std::time::Instant::now();
    let v = VARIANTS[variant as usize % 5];
    let mut g = Gen { pat: pattern, pos: 0, total, r: Rng::new(seed), eintr: 0, calls: 0, fail_at_end };
    let got = crate::framework::guarded(|| {
        with_kind!(variant, K => match <K as Kind>::hash_stream(&mut g) {
            Ok(h) => h.to_string(),
            Err(tlsh::GeneratorOrIOError::GeneratorError(e)) => format!("Err({e:?})"),
            Err(tlsh::GeneratorOrIOError::IOError(e)) => format!("IOError({:?}, errno {:?})", e.kind(), e.raw_os_error()),
        })
    });
    let hist = json!({"variant_id": variant, "pattern": crate::data::hex(pattern), "seed": seed.to_string(), "total": total.to_string(), "via": "hash_stream_for", "fail_at_end": fail_at_end});
    let want = match Model::at_offset(v, pattern, total.min(crate::model::CUTOFF), JUMP_CAP) {
        Some(mut m) => {
            if total > m.n {
                m.skip(total - m.n);
            }
            // hash_stream finalizes with the default options (optimistic length mode, legacy f32 ratios, no waivers)
            Some(render_model(&m.finalize(MOpts::from_bits(0))))
        }
        None => None,
    };
    let want = if fail_at_end { Some(format!("IOError({:?}, errno Some(5))", std::io::Error::from_raw_os_error(5).kind())) } else { want };
    let mut viol = Vec::new();
    match (&got, &want) {
        (Err(p), _) => viol.push(json!({"index": seed, "class": format!("panic:{}", crate::framework::panic_class(p)), "detail": format!("panic: {p}"), "history": hist, "engine": "bigstream"})),
        (Ok(g), Some(w)) if fail_at_end && g != w => viol.push(json!({"index": seed, "class": "hard-error-swallowed", "detail": format!("the reader failed with errno 5 after delivering {total} bytes: got {g}, want {w}"), "history": hist, "engine": "bigstream"})),
        (Ok(g), Some(w)) if g != w => viol.push(json!({"index": seed, "class": "stream-differs-from-reference", "detail": format!("{total} bytes through hash_stream_for: got {g}, reference model {w}"), "history": hist, "engine": "bigstream"})),
        _ => {}
    }
    // the next call on the same thread: whatever the helper keeps per thread / per process across calls must have survived
    // the (possibly rejected) huge stream
    {
        let mut small = [0u8; 700];
        Rng::new(seed ^ 0x5eed).fill(&mut small);
        let wants = crate::kinds::render::<tlsh::Tlsh>(&tlsh::hash_buf(&small));
        let mut rd: &[u8] = &small;
        let gots = crate::framework::guarded(|| match tlsh::hash_stream(&mut rd) {
            Ok(h) => crate::kinds::render::<tlsh::Tlsh>(&Ok(h)),
            Err(tlsh::GeneratorOrIOError::GeneratorError(e)) => format!("Err({e:?})"),
            Err(tlsh::GeneratorOrIOError::IOError(e)) => format!("IOError({:?})", e.kind()),
        })
        .unwrap_or_else(|p| format!("PANIC: {p}"));
        if gots != wants {
            viol.push(json!({"index": seed, "class": "broken-after-huge-stream", "detail": format!("a 700-byte stream hashed on the same thread right after the {total}-byte stream: got {gots}, want {wants}"), "history": hist, "engine": "bigstream"}));
        }
    }
    for x in viol.iter_mut() {
        x["argv"] = if fail_at_end {
            json!(["bigreader", "--variant", variant.to_string(), "--pattern", crate::data::hex(pattern), "--seed", seed.to_string(), "--total", total.to_string(), "--fail-at-end"])
        } else {
            json!(["bigreader", "--variant", variant.to_string(), "--pattern", crate::data::hex(pattern), "--seed", seed.to_string(), "--total", total.to_string()])
        };
    }
    let n = viol.len();
    let rep = json!({"scenario": "c12big", "property": "C12", "seed": seed.to_string(), "evaluations": 1, "distinct": 1, "distinct_nontrivial": 1,
        "rule": "one real stream of > 4 GB through hash_stream_for with seeded read sizes and EINTR; compared with the reference model at that offset",
        "counters": {"sim_bytes_fed": g.pos, "fault.eintr": g.eintr, "read_calls": g.calls, "probe.stream_gt_4GiB": (total > (1u64 << 32)) as u64},
        "samples": [hist], "violation_count": n, "violations": viol, "wall_s": t0.elapsed().as_secs_f64()});
    (if n > 0 { 1 } else { 0 }, rep)
}

/// C03 side job: `total` bytes (> 1 GiB) of a periodic pattern fed (a) in ONE update() call and (b) in seeded pieces of at
/// most 192 MiB; both generators must be observationally equal (processed_len, finalize under every option setting).
pub fn c03_big(variant: u8, pattern: &[u8], seed: u64, total: u64) -> (i32, Value) {
    let t0 = std::time::Instant::now();
    let buf: Vec<u8> = (0..total as usize).map(|i| pattern[i % pattern.len()]).collect();
    let res = crate::framework::guarded(|| {
        with_kind!(variant, K => {
            let mut one = <K as Kind>::new_gen();
            one.update(&buf);
            let mut many = <K as Kind>::new_gen();
            let mut r = Rng::new(seed);
            let mut pos = 0usize;
            let mut pieces = 0u64;
            while pos < buf.len() {
                let n = (r.range(1, 192 << 20) as usize).min(buf.len() - pos);
                many.update(&buf[pos..pos + n]);
                pos += n;
                pieces += 1;
            }
            let mut diff = None;
            if one.processed_len() != many.processed_len() {
                diff = Some(format!("processed_len: one piece {:?}, {pieces} pieces {:?}", one.processed_len(), many.processed_len()));
            }
            for o in 0..32u8 {
                let a = crate::kinds::render(&one.finalize_with_options(&crate::kinds::options(o)));
                let b = crate::kinds::render(&many.finalize_with_options(&crate::kinds::options(o)));
                if a != b && diff.is_none() {
                    diff = Some(format!("options#{o}: one piece gives {a}, {pieces} pieces give {b}"));
                }
            }
            (diff, pieces)
        })
    });
    let hist = json!({"variant_id": variant, "pattern": crate::data::hex(pattern), "seed": seed.to_string(), "total": total.to_string()});
    let mut viol = Vec::new();
    let mut pieces = 0;
    match res {
        Err(p) => viol.push(json!({"index": seed, "class": format!("panic:{}", crate::framework::panic_class(&p)), "detail": format!("panic: {p}"), "history": hist, "engine": "bigstream"})),
        Ok((Some(d), n)) => {
            pieces = n;
            viol.push(json!({"index": seed, "class": "chunked-differs-from-one-shot", "detail": format!("{total} bytes: {d}"), "history": hist, "engine": "bigstream"}))
        }
        Ok((None, n)) => pieces = n,
    }
    for x in viol.iter_mut() {
        x["argv"] = json!(["c03big", "--variant", variant.to_string(), "--pattern", crate::data::hex(pattern), "--seed", seed.to_string(), "--total", total.to_string()]);
    }
    let n = viol.len();
    let rep = json!({"scenario": "c03big", "property": "C03", "seed": seed.to_string(), "evaluations": 1, "distinct": 1, "distinct_nontrivial": 1,
        "rule": "one real input larger than 1 GiB: a single update() call versus the same bytes in seeded pieces of up to 192 MiB",
        "counters": {"sim_bytes_fed": total * 2, "pieces": pieces, "probe.single_piece_gt_1GiB": (total > (1 << 30)) as u64}, "samples": [hist],
        "violation_count": n, "violations": viol, "wall_s": t0.elapsed().as_secs_f64()});
    (if n > 0 { 1 } else { 0 }, rep)
}
