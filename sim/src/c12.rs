//! C12 — stream helpers under reader faults (scripted `Read`).
//!
//! World: one byte source, one scripted reader, one call of hash_stream / hash_stream_for::<T>.
//! Oracle: no hard error fired  => result ≅ hash_buf_for::<T>(bytes the reader handed out)
//!         first hard error e   => Err(IOError(x)) with x "being" e (kind + payload id / errno)
//!         never a panic, bounded number of read calls (progress once faults stop).

use crate::data::{draw_data, draw_small_len, DataDesc};
use crate::framework::{guarded, panic_class, Outcome, Scenario, Stats, Violation};
use crate::kinds::{render, Kind, VARIANT_NAMES};
use crate::prng::{Fnv, Rng};
use crate::with_kind;
use serde_json::{json, Value};
use std::io::{self, ErrorKind, Read};

pub const MIB: usize = 1 << 20;

#[derive(Clone, Debug, Hash, PartialEq, Eq)]
pub enum Ev {
    /// hand out up to k bytes (k >= 1), limited by the buffer offered and the bytes left
    Deliver(u32),
    /// Err(ErrorKind::Interrupted): transient, the caller is expected to retry
    Eintr,
    /// a hard error of kind HARD_KINDS[i] (custom payload) or raw errno (i >= HARD_KINDS.len())
    Hard(u8),
    /// Ok(0) although data is left: the stream ends here
    Eof,
    /// a *nested* complete hash_stream call on another small stream from inside read() — on the same thread (re-entrancy:
    /// tee / manifest readers do this) or on a freshly spawned thread that is joined before read() returns (two calls
    /// overlapping in time: process-wide scratch state is contended at a point the reader controls).  Then delivers like Deliver(k).
    Nested { other_thread: bool, k: u32 },
    /// Ok(0) once -- and data again on the next call (a tailed file, a terminal after ^D): legal for a reader.  A helper
    /// may stop at the first Ok(0) or read on; either way the result must be the hash of everything it was handed.
    SoftEof,
    /// the reader itself panics (unwinds through the helper): a caller-side crash in the middle of a call.  Nothing is
    /// judged about that call except that it unwinds; what is judged is the *next* calls (same thread and another
    /// thread): whatever process-wide or per-thread state the helper holds across `read()` must not stay poisoned.
    Panic,
    /// contract violation (C17 only): report n + extra bytes although at most buf.len() can be written.
    /// 0: buf.len()+1, 1: buf.len()+1_000_000, 2: usize::MAX, 3: honest count but nothing written (legal)
    Lie(u8),
}

pub const HARD_KINDS: [ErrorKind; 24] = [
    ErrorKind::Other,
    ErrorKind::UnexpectedEof,
    ErrorKind::BrokenPipe,
    ErrorKind::TimedOut,
    ErrorKind::WouldBlock,
    ErrorKind::PermissionDenied,
    ErrorKind::InvalidData,
    ErrorKind::ConnectionReset,
    ErrorKind::FileTooLarge,
    ErrorKind::StorageFull,
    ErrorKind::OutOfMemory,
    ErrorKind::InvalidInput,
    ErrorKind::NotFound,
    ErrorKind::AlreadyExists,
    ErrorKind::Unsupported,
    ErrorKind::WriteZero,
    ErrorKind::ConnectionAborted,
    ErrorKind::NotConnected,
    ErrorKind::ResourceBusy,
    ErrorKind::Deadlock,
    ErrorKind::IsADirectory,
    ErrorKind::StaleNetworkFileHandle,
    ErrorKind::QuotaExceeded,
    ErrorKind::ArgumentListTooLong,
];
/// raw OS error numbers (EINTR = 4 is the transient one and is not in this list)
pub const HARD_ERRNOS: [i32; 40] = [1, 2, 3, 5, 6, 7, 8, 9, 10, 11, 12, 13, 14, 16, 17, 19, 20, 21, 22, 23, 24, 25, 26, 27, 28, 29, 30, 31, 32, 36, 61, 71, 74, 75, 84, 104, 110, 111, 121, 122];
/// hard errors whose *payload* is one of the library's own error values (a reader may wrap anything)
pub const HARD_FOREIGN: usize = 2;
pub const HARD_TOTAL: usize = HARD_KINDS.len() + HARD_ERRNOS.len() + HARD_FOREIGN;

#[derive(Clone, Debug, Hash, PartialEq, Eq)]
pub struct Hist {
    /// 0..5 = hash_stream_for::<variant>, 5 = hash_stream (the Tlsh alias)
    pub api: u8,
    pub data: DataDesc,
    pub script: Vec<Ev>,
    /// after the script: keep delivering the rest in pieces of this size (0 = stop: Ok(0) forever)
    pub drain: u32,
    /// overwrite buf[n..] with garbage on every successful read (legal: bytes past n are unspecified)
    pub scribble: bool,
    pub sub: u8,
    /// call context: 0 the worker thread itself; 1 a freshly spawned thread with a small (128 KiB) stack;
    /// 2 inside a thread-local destructor at thread exit, on a thread that has used the library before
    pub ctx: u8,
}

#[derive(Debug)]
struct Payload(u64);
impl std::fmt::Display for Payload {
    fn fmt(&self, f: &mut std::fmt::Formatter<'_>) -> std::fmt::Result {
        write!(f, "injected fault #{}", self.0)
    }
}
impl std::error::Error for Payload {}

pub struct SimReader<'a> {
    pub data: &'a [u8],
    pub pos: usize,
    pub script: &'a [Ev],
    pub idx: usize,
    pub drain: u32,
    pub scribble: bool,
    pub calls: u64,
    pub budget: u64,
    pub eof: bool,
    pub min_buf: usize,
    pub max_buf: usize,
    pub first_hard: Option<(u8, u64)>,
    pub hard_seq: u64,
    pub lied: bool,
    pub delivered_marks: Vec<usize>,
    pub fired_eintr: u64,
    pub fired_hard: u64,
    pub fired_eof: bool,
    pub max_eintr_run: u64,
    cur_eintr_run: u64,
    pub exact_mib_read: bool,
    pub hard_after_mib: bool,
    /// some read on a non-empty buffer returned Ok(0): the only way a caller can learn that the stream ended
    pub signalled_eof: bool,
    pub post_eof_calls: u64,
    pub nested_calls: u64,
    /// a nested call returned something else than hash_buf of its own stream
    pub nested_wrong: Option<String>,
    pub panicked: bool,
}

impl<'a> SimReader<'a> {
    pub fn new(data: &'a [u8], h: &'a Hist) -> Self {
        SimReader {
            data,
            pos: 0,
            script: &h.script,
            idx: 0,
            drain: h.drain,
            scribble: h.scribble,
            calls: 0,
            budget: 64,
            eof: false,
            min_buf: usize::MAX,
            max_buf: 0,
            first_hard: None,
            hard_seq: 0,
            lied: false,
            delivered_marks: Vec::new(),
            fired_eintr: 0,
            fired_hard: 0,
            fired_eof: false,
            max_eintr_run: 0,
            cur_eintr_run: 0,
            exact_mib_read: false,
            hard_after_mib: false,
            signalled_eof: false,
            post_eof_calls: 0,
            nested_calls: 0,
            nested_wrong: None,
            panicked: false,
        }
    }
    fn deliver(&mut self, buf: &mut [u8], k: usize) -> usize {
        let n = k.min(buf.len()).min(self.data.len() - self.pos);
        buf[..n].copy_from_slice(&self.data[self.pos..self.pos + n]);
        self.pos += n;
        if self.scribble {
            let m = buf.len().min(n + 96);
            for (i, b) in buf[n..m].iter_mut().enumerate() {
                *b = 0xA5 ^ (i as u8) ^ (self.calls as u8);
            }
        }
        if n == MIB && buf.len() == MIB {
            self.exact_mib_read = true;
        }
        n
    }
}

impl Read for SimReader<'_> {
    fn read(&mut self, buf: &mut [u8]) -> io::Result<usize> {
        let r = self.read_inner(buf);
        if matches!(r, Ok(0)) && !buf.is_empty() {
            self.signalled_eof = true;
        }
        r
    }
}
impl SimReader<'_> {
    fn read_inner(&mut self, buf: &mut [u8]) -> io::Result<usize> {
        self.calls += 1;
        // Liveness: the script and the data are finite, so every caller -- whatever its buffer size or retry policy --
        // reaches the point where the reader has signalled end of stream.  From then on at most `budget` further calls
        // are tolerated (a correct caller stops at the first Ok(0); one that keeps polling forever is "no progress").
        if self.signalled_eof {
            self.post_eof_calls += 1;
            if self.post_eof_calls > self.budget {
                panic!("SIM-BUDGET: reader called {} more times after it had signalled end of stream", self.post_eof_calls);
            }
        }
        self.min_buf = self.min_buf.min(buf.len());
        self.max_buf = self.max_buf.max(buf.len());
        if self.eof {
            return Ok(0);
        }
        if self.idx >= self.script.len() {
            if self.drain == 0 {
                return Ok(0);
            }
            let n = self.deliver(buf, self.drain as usize);
            return Ok(n);
        }
        let ev = self.script[self.idx].clone();
        self.idx += 1;
        if !matches!(ev, Ev::Eintr) {
            self.cur_eintr_run = 0;
        }
        match ev {
            Ev::Deliver(k) => Ok(self.deliver(buf, k.max(1) as usize)),
            Ev::Nested { other_thread, k } => {
                self.nested_calls += 1;
                let r = if other_thread {
                    std::thread::scope(|s| s.spawn(nested_call).join().unwrap_or_else(|_| Err("nested call panicked on its thread".to_string())))
                } else {
                    nested_call()
                };
                if let Err(e) = r {
                    self.nested_wrong.get_or_insert(e);
                }
                Ok(self.deliver(buf, k.max(1) as usize))
            }
            Ev::Panic => {
                self.panicked = true;
                panic!("SIM-READER-PANIC: the reader crashed in read call {}", self.calls);
            }
            Ev::Eintr => {
                self.fired_eintr += 1;
                self.cur_eintr_run += 1;
                self.max_eintr_run = self.max_eintr_run.max(self.cur_eintr_run);
                Err(io::Error::from(ErrorKind::Interrupted))
            }
            Ev::Hard(i) => {
                self.fired_hard += 1;
                self.hard_seq += 1;
                if self.first_hard.is_none() {
                    self.first_hard = Some((i, self.hard_seq));
                    if self.pos >= MIB {
                        self.hard_after_mib = true;
                    }
                }
                let i = i as usize % HARD_TOTAL;
                if i < HARD_KINDS.len() {
                    Err(io::Error::new(HARD_KINDS[i], Payload(self.hard_seq)))
                } else if i < HARD_KINDS.len() + HARD_ERRNOS.len() {
                    Err(io::Error::from_raw_os_error(HARD_ERRNOS[i - HARD_KINDS.len()]))
                } else if i == HARD_KINDS.len() + HARD_ERRNOS.len() {
                    Err(io::Error::new(ErrorKind::Other, tlsh::GeneratorError::TooLargeInput))
                } else {
                    Err(io::Error::new(ErrorKind::InvalidData, tlsh::GeneratorError::TooSmallInput))
                }
            }
            Ev::SoftEof => {
                self.fired_eof = self.pos < self.data.len();
                Ok(0)
            }
            Ev::Eof => {
                self.eof = true;
                self.fired_eof = self.pos < self.data.len();
                Ok(0)
            }
            Ev::Lie(kind) => {
                self.lied = true;
                match kind {
                    0 => Ok(buf.len() + 1),
                    1 => Ok(buf.len() + 1_000_000),
                    2 => Ok(usize::MAX),
                    _ => {
                        // legal: claims k bytes but leaves the buffer content as it was; the "delivered"
                        // bytes are then whatever the buffer held, so the hash is unconstrained.
                        Ok(buf.len().min(7))
                    }
                }
            }
        }
    }
}

/// The inner stream of a nested call: 300 seeded bytes through a small fault script of its own.
fn nested_call() -> Result<(), String> {
    struct Inner {
        data: [u8; 300],
        pos: usize,
        step: u32,
    }
    impl Read for Inner {
        fn read(&mut self, buf: &mut [u8]) -> io::Result<usize> {
            self.step += 1;
            if self.step % 3 == 1 && self.step < 12 {
                return Err(io::Error::from(ErrorKind::Interrupted));
            }
            let n = buf.len().min(self.data.len() - self.pos).min(if self.step % 2 == 0 { 113 } else { 7 });
            buf[..n].copy_from_slice(&self.data[self.pos..self.pos + n]);
            self.pos += n;
            Ok(n)
        }
    }
    let mut data = [0u8; 300];
    Rng::new(0x1234_5678).fill(&mut data);
    let want = render::<tlsh::Tlsh>(&tlsh::hash_buf(&data));
    let mut inner = Inner { data, pos: 0, step: 0 };
    let got = match tlsh::hash_stream(&mut inner) {
        Ok(h) => render::<tlsh::Tlsh>(&Ok(h)),
        Err(tlsh::GeneratorOrIOError::GeneratorError(e)) => format!("Err({e:?})"),
        Err(tlsh::GeneratorOrIOError::IOError(e)) => format!("IOError({:?})", e.kind()),
    };
    if got == want {
        Ok(())
    } else {
        Err(format!("nested hash_stream on a 300-byte stream (with three Interrupted results) returned {got}, want {want}"))
    }
}

pub struct C12 {
    /// allow contract-violating `Lie` events (C17 flavour: only "no UB, clean panic at worst" is judged)
    pub lies: bool,
}

fn draw_len(r: &mut Rng) -> usize {
    if crate::data::small() {
        return draw_small_len(r);
    }
    match r.below(100) {
        0..=79 => draw_small_len(r),
        80..=84 => *r.pick(&[MIB - 1, MIB, MIB + 1, MIB - 4, MIB + 4, MIB + 5, 2 * MIB, 2 * MIB + 1, 2 * MIB - 1]),
        85..=94 => r.range(65536, 300_000) as usize,
        95..=97 => r.range(MIB as u64 - 8, MIB as u64 + 8) as usize,
        _ => r.range(2 * MIB as u64, 5 * MIB as u64) as usize,
    }
}

fn draw_piece(r: &mut Rng, class: u64, left: usize) -> u32 {
    let k = match class {
        0 => r.range(1, 5),
        1 => r.range(1, 64),
        2 => r.range(1, 70_000),
        3 => r.range(MIB as u64 - 2, MIB as u64 + 2),
        4 => left.max(1) as u64,
        5 => *r.pick(&[1u64, 2, 3, 4, 5, 4096, 65536, MIB as u64, u32::MAX as u64]),
        _ => {
            let c = r.below(6);
            return draw_piece(r, c, left);
        }
    };
    k.min(u32::MAX as u64) as u32
}

struct ExitHook(Option<Box<dyn FnOnce() + Send>>);
impl Drop for ExitHook {
    fn drop(&mut self) {
        if let Some(f) = self.0.take() {
            f()
        }
    }
}
thread_local! {
    static EXIT: std::cell::RefCell<ExitHook> = std::cell::RefCell::new(ExitHook(None));
}

impl C12 {
    fn execute_inner(&self, h: &Hist, st: &mut Stats) -> Outcome {
        let data = h.data.bytes();
        let mut rd = SimReader::new(&data, h);
        let api = h.api;
        // --- real code under test ---
        let got: Result<Result<String, tlsh::GeneratorOrIOError>, String> = guarded(|| {
            if api >= 5 {
                tlsh::hash_stream(&mut rd).map(|x| render::<tlsh::Tlsh>(&Ok(x)))
            } else {
                with_kind!(api, K => <K as Kind>::hash_stream(&mut rd).map(|x| render::<<K as Kind>::H>(&Ok(x))))
            }
        });
        let delivered = &data[..rd.pos];
        // --- bookkeeping: what fired ---
        st.hit("runs");
        if rd.panicked {
            // crash of the caller's reader in mid-call: the next calls must work (no poisoned lock, no scratch left borrowed)
            st.hit("fault.reader_panic_unwinds_through_call");
            let same = guarded(nested_call).unwrap_or_else(|p| Err(format!("panicked: {p}")));
            let other = std::thread::scope(|s| s.spawn(|| guarded(nested_call).unwrap_or_else(|p| Err(format!("panicked: {p}")))).join().unwrap_or_else(|_| Err("panicked on its thread".to_string())));
            let states = vec![0xdead_0000 | (api as u64) << 8 | rd.calls.min(7)];
            let violation = match (same, other, &got) {
                (Err(e), _, _) => Some(Violation { class: "broken-after-reader-panic".into(), detail: format!("after a reader panicked inside read() (call {}), the next hash_stream call on the same thread: {e}", rd.calls) }),
                (_, Err(e), _) => Some(Violation { class: "broken-after-reader-panic".into(), detail: format!("after a reader panicked inside read() (call {}), the next hash_stream call on another thread: {e}", rd.calls) }),
                (_, _, Err(p)) if !p.contains("SIM-READER-PANIC") && !(self.lies && rd.lied) => Some(Violation { class: format!("panic:{}", panic_class(p)), detail: format!("panic in hash_stream: {p}") }),
                (_, _, Ok(_)) => {
                    st.hit("probe.reader_panic_swallowed");
                    None
                }
                _ => None,
            };
            return Outcome { violation, digest: 0x9a1c, nontrivial: true, states };
        }
        st.add("read_calls", rd.calls);
        st.add("fault.eintr", rd.fired_eintr);
        st.add("fault.hard_error", rd.fired_hard);
        if rd.fired_eof {
            st.hit("fault.early_eof");
        }
        if rd.scribble && rd.calls > 0 {
            st.hit("fault.scribble_runs");
        }
        if rd.lied {
            st.hit("fault.lie");
        }
        st.add("fault.nested_call_inside_read", rd.nested_calls);
        if rd.exact_mib_read {
            st.hit("probe.read_exactly_1MiB");
        }
        if rd.hard_after_mib {
            st.hit("probe.hard_error_after_1MiB");
        }
        if rd.max_eintr_run >= 3 {
            st.hit("probe.eintr_run_ge3");
        }
        if matches!(h.script.first(), Some(Ev::Eintr)) && rd.fired_eintr > 0 {
            st.hit("probe.eintr_first_event");
        }
        if rd.pos > MIB {
            st.hit("probe.stream_gt_1MiB");
        }
        if rd.pos == MIB {
            st.hit("probe.stream_eq_1MiB");
        }
        if rd.calls >= 3 {
            st.hit("probe.multi_read");
        }
        let mut fnv = Fnv::new();
        let fired_fault = rd.nested_calls > 0 || rd.fired_eintr > 0 || rd.fired_hard > 0 || rd.fired_eof || (rd.scribble && rd.calls > 0) || rd.lied;
        let nontrivial = rd.calls >= 2 && (h.sub == 0 || fired_fault);
        let states = vec![
            (api as u64) << 32
                | (rd.calls.min(7)) << 24
                | (rd.fired_eintr.min(3)) << 20
                | (rd.fired_hard.min(2)) << 16
                | (rd.fired_eof as u64) << 12
                | ((rd.pos > MIB) as u64) << 8
                | ((rd.pos == 0) as u64) << 4
                | (rd.pos.min(5) as u64),
        ];
        let mk = |class: &str, detail: String| Some(Violation { class: class.to_string(), detail });
        // --- oracle ---
        if let Some(e) = &rd.nested_wrong {
            if !(self.lies && rd.lied) {
                return Outcome { violation: mk("nested-call-wrong", e.clone()), digest: 1, nontrivial, states };
            }
        }
        let violation = match &got {
            Err(p) => {
                fnv.write(b"panic");
                if p.starts_with("SIM-BUDGET") {
                    mk("no-progress", format!("read loop did not terminate within the step budget: {p}"))
                } else if self.lies && rd.lied {
                    // a clean panic provoked by a contract-violating reader is the documented worst case
                    st.hit("probe.clean_panic_after_lie");
                    None
                } else {
                    mk(&format!("panic:{}", panic_class(p)), format!("panic in hash_stream: {p}"))
                }
            }
            Ok(res) => {
                if rd.min_buf == 0 {
                    // not a property violation by itself, but the oracle below relies on Ok(0) == EOF
                    st.hit("probe.empty_buffer_offered");
                }
                if self.lies && rd.lied {
                    // the reader broke its contract: the value is unconstrained; only "no UB / no abort" matters
                    fnv.write(b"lied");
                    None
                } else {
                    match (rd.first_hard, res) {
                        (None, r) => {
                            let want = if api >= 5 {
                                render::<tlsh::Tlsh>(&tlsh::hash_buf(delivered))
                            } else {
                                with_kind!(api, K => render::<<K as Kind>::H>(&<K as Kind>::hash_buf(delivered)))
                            };
                            let gots = match r {
                                Ok(s) => s.clone(),
                                Err(tlsh::GeneratorOrIOError::GeneratorError(e)) => format!("Err({e:?})"),
                                Err(tlsh::GeneratorOrIOError::IOError(e)) => format!("IOError({:?})", e.kind()),
                            };
                            fnv.write(gots.as_bytes());
                            if !rd.signalled_eof {
                                // no hard error, yet a result was produced although no read ever returned Ok(0):
                                // the helper stopped reading a stream that had not ended
                                mk("stopped-before-end-of-stream", format!("a result ({gots}) was returned after {} read calls although the reader never signalled end of stream (no hard error injected; {} of {} bytes delivered)", rd.calls, rd.pos, data.len()))
                            } else if gots != want {
                                let class = if gots.starts_with("IOError(Interrupted") {
                                    "eintr-propagated".to_string()
                                } else if gots.starts_with("IOError") {
                                    "spurious-io-error".to_string()
                                } else {
                                    "hash-differs-from-delivered-bytes".to_string()
                                };
                                mk(&class, format!("no hard error was injected; delivered {} bytes; got {gots}, want {want}", delivered.len()))
                            } else {
                                None
                            }
                        }
                        (Some((kind, id)), r) => {
                            fnv.write(b"hard");
                            match r {
                                Err(tlsh::GeneratorOrIOError::IOError(e)) => {
                                    let i = kind as usize % HARD_TOTAL;
                                    let ok = if i < HARD_KINDS.len() {
                                        e.kind() == HARD_KINDS[i]
                                            && e.get_ref().and_then(|x| x.downcast_ref::<Payload>()).map(|p| p.0) == Some(id)
                                    } else if i < HARD_KINDS.len() + HARD_ERRNOS.len() {
                                        e.raw_os_error() == Some(HARD_ERRNOS[i - HARD_KINDS.len()])
                                    } else if i == HARD_KINDS.len() + HARD_ERRNOS.len() {
                                        e.kind() == ErrorKind::Other && e.get_ref().and_then(|x| x.downcast_ref::<tlsh::GeneratorError>()) == Some(&tlsh::GeneratorError::TooLargeInput)
                                    } else {
                                        e.kind() == ErrorKind::InvalidData && e.get_ref().and_then(|x| x.downcast_ref::<tlsh::GeneratorError>()) == Some(&tlsh::GeneratorError::TooSmallInput)
                                    };
                                    if ok {
                                        None
                                    } else {
                                        mk("wrong-io-error", format!("first injected hard error was kind#{kind} id {id}; got IOError({e:?})"))
                                    }
                                }
                                Ok(s) => mk("hard-error-swallowed", format!("hard error kind#{kind} injected after {} bytes but a hash was returned: {s}", delivered.len())),
                                Err(tlsh::GeneratorOrIOError::GeneratorError(e)) => {
                                    mk("hard-error-swallowed", format!("hard error kind#{kind} injected but GeneratorError({e:?}) returned"))
                                }
                            }
                        }
                    }
                }
            }
        };
        Outcome { violation, digest: fnv.finish(), nontrivial, states }
    }
}

impl Scenario for C12 {
    type Hist = Hist;
    fn name(&self) -> &'static str {
        if self.lies { "c17reader" } else { "c12" }
    }
    fn property(&self) -> &'static str {
        if self.lies { "C17" } else { "C12" }
    }
    fn rule(&self) -> &'static str {
        "history = (api/variant, data descriptor, reader script, drain size, scribble flag); distinct = distinct history digests; \
         non-trivial = at least 2 read calls were made and, outside the fault-free sub-batch, at least one injected fault (EINTR, hard error, early EOF, scribble, lie) actually fired"
    }
    fn generate(&self, r: &mut Rng, index: u64) -> Hist {
        // sub-batches: 0 honest; 1 +EINTR; 2 +hard error; 3 early EOF; 4 swarm (everything, scribble)
        let sub = (index % 5) as u8;
        let api = r.below(6) as u8;
        let len = draw_len(r);
        let data = draw_data(r, len);
        let class = r.below(7);
        let mut script = Vec::new();
        let mut left = len;
        let max_deliver = r.range(1, 40);
        let mut n = 0;
        while left > 0 && n < max_deliver {
            let k = draw_piece(r, class, left);
            script.push(Ev::Deliver(k));
            left -= (k as usize).min(left).min(MIB);
            n += 1;
        }
        let drain = if left > 0 || r.chance(1, 2) {
            if r.chance(1, 6) {
                0
            } else {
                let c = r.below(6);
                // keep the number of drain reads bounded (<= ~64 calls)
                draw_piece(r, c, left).max(1).max((left / 48) as u32)
            }
        } else {
            0
        };
        let eintr = matches!(sub, 1 | 4) || (matches!(sub, 2 | 3) && r.chance(1, 3));
        let hard = sub == 2 || (sub == 4 && r.chance(1, 2));
        let eof = sub == 3 || (sub == 4 && r.chance(1, 3));
        let scribble = sub == 4 && r.chance(1, 2);
        if eintr {
            let bursts = r.range(1, 4);
            for _ in 0..bursts {
                let mut at = r.below(script.len() as u64 + 1) as usize;
                if r.chance(1, 8) {
                    // bias: right after a delivery that can fill the whole 1 MiB buffer (state: buffer just flushed)
                    if let Some(p) = script.iter().position(|e| matches!(e, Ev::Deliver(k) if *k as usize >= MIB)) {
                        at = p + 1;
                    }
                }
                let run = if r.chance(1, 64) {
                    *r.pick(&[15u64, 16, 17, 31, 32, 33, 63, 64, 65, 100, 127, 128, 129, 255, 256, 257, 1000])
                } else if r.chance(1, 8) {
                    r.range(3, 50)
                } else {
                    r.range(1, 2)
                };
                for _ in 0..run {
                    script.insert(at, Ev::Eintr);
                }
            }
        }
        if eof && !script.is_empty() {
            let at = r.below(script.len() as u64 + 1) as usize;
            script.insert(at, if r.chance(1, 4) { Ev::SoftEof } else { Ev::Eof });
        }
        if hard {
            let at = r.below(script.len() as u64 + 1) as usize;
            let kind = r.below(HARD_TOTAL as u64) as u8;
            script.insert(at, Ev::Hard(kind));
            if r.chance(1, 5) {
                // a second, different hard error later: the *first* one must be reported
                let at2 = r.range(at as u64 + 1, script.len() as u64) as usize;
                script.insert(at2, Ev::Hard(((kind as usize + 1) % HARD_TOTAL) as u8));
            }
        }
        if sub != 0 && r.chance(1, 5) {
            let at = r.below(script.len() as u64 + 1) as usize;
            script.insert(at, Ev::Nested { other_thread: r.chance(1, 2), k: r.range(1, 5000) as u32 });
        }
        if sub != 0 && r.chance(1, 16) {
            let at = r.below(script.len() as u64 + 1) as usize;
            script.insert(at, Ev::Panic);
        }
        if self.lies {
            // C17 flavour: some runs carry one lie somewhere (sub 0 stays honest)
            if sub != 0 {
                let at = r.below(script.len() as u64 + 1) as usize;
                script.insert(at, Ev::Lie(r.below(4) as u8));
            }
        }
        let ctx = if sub == 0 { 0 } else { match r.below(20) { 0..=1 => 1, 2 => 2, _ => 0 } };
        Hist { api, data, script, drain, scribble, sub, ctx }
    }

    fn execute(&self, h: &Hist, st: &mut Stats) -> Outcome {
        match h.ctx {
            1 => {
                st.hit("fault.call_on_small_stack_thread");
                let mut local = Stats::default();
                let out = std::thread::scope(|sc| {
                    std::thread::Builder::new()
                        .stack_size(128 * 1024)
                        .spawn_scoped(sc, || self.execute_inner(h, &mut local))
                        .expect("spawn")
                        .join()
                });
                st.merge(&local);
                out.unwrap_or_else(|_| Outcome {
                    violation: Some(Violation { class: "panic:on-small-stack-thread".into(), detail: "the call panicked on a thread with a 128 KiB stack".into() }),
                    digest: 0,
                    nontrivial: true,
                    states: vec![],
                })
            }
            2 => {
                st.hit("fault.call_inside_tls_destructor_at_thread_exit");
                let (tx, rx) = std::sync::mpsc::channel();
                let (hc, lies) = (h.clone(), self.lies);
                let t = std::thread::spawn(move || {
                    // our thread-local is initialised first, so it is destroyed last: its destructor runs after whatever
                    // thread-local state the library created during the warm-up call has already been torn down
                    EXIT.with(|e| {
                        e.borrow_mut().0 = Some(Box::new(move || {
                            let mut local = Stats::default();
                            let out = C12 { lies }.execute_inner(&hc, &mut local);
                            let _ = tx.send((out, local));
                        }))
                    });
                    let mut warm: &[u8] = &[0x55u8; 80];
                    let _ = tlsh::hash_stream(&mut warm);
                });
                let got = rx.recv();
                let _ = t.join();
                match got {
                    Ok((out, local)) => {
                        st.merge(&local);
                        out
                    }
                    Err(_) => Outcome {
                        violation: Some(Violation { class: "panic:inside-tls-destructor".into(), detail: "the call made from a thread-local destructor at thread exit did not return".into() }),
                        digest: 0,
                        nontrivial: true,
                        states: vec![],
                    },
                }
            }
            _ => self.execute_inner(h, st),
        }
    }

    fn shrink(&self, h: &Hist) -> Vec<Hist> {
        let mut out = Vec::new();
        // drop script halves, then single events
        let n = h.script.len();
        if n > 1 {
            let mut a = h.clone();
            a.script.truncate(n / 2);
            out.push(a);
            let mut b = h.clone();
            b.script.drain(..n / 2);
            out.push(b);
        }
        for i in 0..n.min(48) {
            let mut c = h.clone();
            c.script.remove(i);
            out.push(c);
        }
        if h.drain != 0 {
            let mut c = h.clone();
            c.drain = 0;
            out.push(c);
        }
        if h.scribble {
            let mut c = h.clone();
            c.scribble = false;
            out.push(c);
        }
        for d in h.data.shrink() {
            let mut c = h.clone();
            c.data = d;
            out.push(c);
        }
        for (i, e) in h.script.iter().enumerate().take(48) {
            if let Ev::Deliver(k) = e {
                for nk in [1u32, 4, 5, k / 2] {
                    if nk >= 1 && nk < *k {
                        let mut c = h.clone();
                        c.script[i] = Ev::Deliver(nk);
                        out.push(c);
                    }
                }
            }
            if let Ev::Hard(k) = e {
                if *k != 0 {
                    let mut c = h.clone();
                    c.script[i] = Ev::Hard(0);
                    out.push(c);
                }
            }
        }
        if h.api != 1 {
            let mut c = h.clone();
            c.api = 1;
            out.push(c);
        }
        if h.ctx != 0 {
            let mut c = h.clone();
            c.ctx = 0;
            out.push(c);
        }
        out
    }

    fn to_json(&self, h: &Hist) -> Value {
        let script: Vec<String> = h
            .script
            .iter()
            .map(|e| match e {
                Ev::Deliver(k) => format!("Deliver({k})"),
                Ev::Eintr => "Eintr".to_string(),
                Ev::Panic => "Panic".to_string(),
                Ev::Hard(k) => format!("Hard({k})"),
                Ev::Eof => "Eof".to_string(),
                Ev::SoftEof => "SoftEof".to_string(),
                Ev::Lie(k) => format!("Lie({k})"),
                Ev::Nested { other_thread, k } => format!("Nested({},{k})", *other_thread as u8),
            })
            .collect();
        json!({
            "api": if h.api >= 5 { "hash_stream".to_string() } else { format!("hash_stream_for::<{}>", VARIANT_NAMES[h.api as usize]) },
            "api_id": h.api, "data": h.data.to_json(), "script": script, "drain": h.drain, "scribble": h.scribble, "sub": h.sub, "ctx": h.ctx,
        })
    }
    fn from_json(&self, v: &Value) -> Result<Hist, String> {
        let mut script = Vec::new();
        for e in v["script"].as_array().ok_or("script")? {
            let s = e.as_str().ok_or("script item")?;
            let arg = |s: &str| -> Result<u64, String> {
                let a = s.find('(').ok_or("(")?;
                s[a + 1..s.len() - 1].parse::<u64>().map_err(|e| e.to_string())
            };
            script.push(if s == "Eintr" {
                Ev::Eintr
            } else if s == "Eof" {
                Ev::Eof
            } else if s == "SoftEof" {
                Ev::SoftEof
            } else if s == "Panic" {
                Ev::Panic
            } else if s.starts_with("Deliver") {
                Ev::Deliver(arg(s)? as u32)
            } else if s.starts_with("Hard") {
                Ev::Hard(arg(s)? as u8)
            } else if s.starts_with("Lie") {
                Ev::Lie(arg(s)? as u8)
            } else if s.starts_with("Nested") {
                let a = s.find('(').ok_or("(")?;
                let parts: Vec<&str> = s[a + 1..s.len() - 1].split(',').collect();
                Ev::Nested { other_thread: parts[0].trim() == "1", k: parts.get(1).and_then(|x| x.trim().parse().ok()).unwrap_or(1) }
            } else {
                return Err(format!("unknown event {s}"));
            });
        }
        Ok(Hist {
            api: v["api_id"].as_u64().ok_or("api_id")? as u8,
            data: DataDesc::from_json(&v["data"])?,
            script,
            drain: v["drain"].as_u64().ok_or("drain")? as u32,
            scribble: v["scribble"].as_bool().ok_or("scribble")?,
            sub: v["sub"].as_u64().unwrap_or(4) as u8,
            ctx: v["ctx"].as_u64().unwrap_or(0) as u8,
        })
    }
}
