//! C17 — totality and memory safety of the safe API.
//!
//! Scenario "c17api": seeded call sequences over the safe public API with arbitrary arguments
//! (the C07 workload ops + per-bucket quartile lookups with in- and out-of-range indices + the easy
//! functions on mutated strings).  The oracle here only says: no panic except the documented
//! out-of-range bucket index.  Undefined behaviour is made observable by the *engine* the same
//! scenario runs under: Miri (three CPU tiers x safe/`unsafe` feature), native builds with debug
//! assertions + overflow checks, AddressSanitizer.  "c17reader" (c12.rs, lies = true) adds
//! contract-violating `Read` implementations.

use crate::data::{draw_data, draw_small_len, hex, unhex, DataDesc};
use crate::framework::{guarded, panic_class, Outcome, Scenario, Stats, Violation};
use crate::kinds::Kind;
use crate::prng::{Fnv, Rng};
use crate::with_kind;
use crate::workload::{draw_op, draw_raw, exec_op, op_from, op_json, shrink_op, WOp};
use serde_json::{json, Value};
use tlsh::hash::body::FuzzyHashBody;
use tlsh::FuzzyHashType;

#[derive(Clone, Debug, Hash, PartialEq, Eq)]
pub enum Op {
    W(WOp),
    /// body().quartile(i) -- documented to panic iff i >= NUMBER_OF_BUCKETS
    Quartile { v: u8, raw: Vec<u8>, i: u16 },
    /// tlsh::hash_buf / hash_buf_for on arbitrary data
    HashBuf { v: u8, data: DataDesc },
    /// tlsh::compare_with on two arbitrary (possibly non-UTF-8-derived, lossy) strings
    CompareStr { v: u8, a: Vec<u8>, b: Vec<u8> },
}

#[derive(Clone, Debug, Hash, PartialEq, Eq)]
pub struct Hist {
    pub ops: Vec<Op>,
    /// run the whole history on a freshly spawned thread with a 128 KiB stack (the smallest default thread stack of a
    /// mainstream libc): core operations must not need more
    pub small_stack: bool,
}
pub struct C17Api;

fn quartile<K: Kind>(raw: &[u8], i: usize) -> u8 {
    let n = <K::H as FuzzyHashType>::SIZE_IN_BYTES;
    let mut b = [0u8; 80];
    for k in 0..n {
        b[k] = raw.get(k).copied().unwrap_or(0);
    }
    let h = <K::H as TryFrom<&[u8]>>::try_from(&b[..n]).expect("lenient");
    h.body().quartile(i)
}
fn buckets_of(v: u8) -> usize {
    [48, 128, 128, 256, 256][v as usize % 5]
}

fn compare_str(v: u8, a: &str, b: &str) -> String {
    match v {
        0 => format!("{:?}", tlsh::compare_with::<tlsh::hashes::Short>(a, b)),
        1 => format!("{:?}", tlsh::compare_with::<tlsh::hashes::Normal>(a, b)),
        2 => format!("{:?}", tlsh::compare_with::<tlsh::hashes::NormalWithLongChecksum>(a, b)),
        3 => format!("{:?}", tlsh::compare_with::<tlsh::hashes::Long>(a, b)),
        _ => format!("{:?}", tlsh::compare_with::<tlsh::hashes::LongWithLongChecksum>(a, b)),
    }
}

fn text_of(r: &mut Rng, v: u8) -> Vec<u8> {
    // a valid hash string of the variant with 0-2 edits, sometimes truncated / extended
    let raw = draw_raw(r);
    let mut s: Vec<u8> = with_kind!(v, K => {
        let n = <<K as Kind>::H as FuzzyHashType>::SIZE_IN_BYTES;
        <<K as Kind>::H as TryFrom<&[u8]>>::try_from(&raw[..n]).map(|h| h.to_string()).unwrap_or_default()
    })
    .into_bytes();
    for _ in 0..r.below(3) {
        if !s.is_empty() {
            let i = r.below(s.len() as u64) as usize;
            s[i] = *r.pick(&[b'g', b'@', b' ', b'T', b't', b'f', b'0', 0xc3, 0xa9, b'\n']);
        }
    }
    match r.below(8) {
        0 => {
            s.pop();
        }
        1 => s.push(b'0'),
        2 => {
            s.drain(..2.min(s.len()));
        }
        _ => {}
    }
    s
}

impl Scenario for C17Api {
    type Hist = Hist;
    fn name(&self) -> &'static str {
        "c17api"
    }
    fn property(&self) -> &'static str {
        "C17"
    }
    fn rule(&self) -> &'static str {
        "history = call sequence over the safe API (generate / parse / binary+accessors / format / compare / max_distance / quartile(i) incl. out-of-range / hash_buf / compare_with on mutated strings); \
         distinct = distinct history digests; non-trivial = at least 2 calls; UB is detected by the engine the history runs under (Miri / debug assertions + overflow checks / ASan)"
    }
    fn generate(&self, r: &mut Rng, _index: u64) -> Hist {
        let n = r.range(1, 10) as usize;
        let ops = (0..n)
            .map(|_| {
                let v = r.below(5) as u8;
                match r.below(100) {
                    0..=64 => Op::W(draw_op(r)),
                    65..=79 => {
                        let nb = buckets_of(v) as u64;
                        let i = match r.below(4) {
                            0 => r.below(nb),
                            1 => nb - 1,
                            2 => nb + r.below(3),
                            _ => *r.pick(&[0u64, 47, 48, 49, 127, 128, 255, 256, 257, 1000, 65535]),
                        } as u16;
                        Op::Quartile { v, raw: draw_raw(r), i }
                    }
                    80..=89 => {
                        let len = draw_small_len(r).min(3000);
                        Op::HashBuf { v, data: draw_data(r, len) }
                    }
                    _ => Op::CompareStr { v, a: text_of(r, v), b: text_of(r, v) },
                }
            })
            .collect();
        Hist { ops, small_stack: r.chance(1, 12) }
    }
    fn execute(&self, h: &Hist, st: &mut Stats) -> Outcome {
        if h.small_stack {
            st.hit("fault.history_on_small_stack_thread");
            let mut local = Stats::default();
            let h2 = Hist { ops: h.ops.clone(), small_stack: false };
            let out = std::thread::scope(|sc| {
                std::thread::Builder::new().stack_size(128 * 1024).spawn_scoped(sc, || self.execute(&h2, &mut local)).expect("spawn").join()
            });
            st.merge(&local);
            return out.unwrap_or_else(|_| Outcome {
                violation: Some(Violation { class: "panic:on-small-stack-thread".into(), detail: "the history panicked on a thread with a 128 KiB stack".into() }),
                digest: 0,
                nontrivial: true,
                states: vec![],
            });
        }
        st.hit("runs");
        let mut fnv = Fnv::new();
        let mut states = Vec::new();
        let mut violation = None;
        for (step, op) in h.ops.iter().enumerate() {
            st.hit("ops");
            let (res, allowed_panic, kind): (Result<String, String>, bool, u64) = match op {
                Op::W(w) => (guarded(|| exec_op(w)), false, 1),
                Op::Quartile { v, raw, i } => {
                    let oob = *i as usize >= buckets_of(*v);
                    if oob {
                        st.hit("probe.quartile_out_of_range");
                    }
                    (guarded(|| with_kind!(*v, K => quartile::<K>(raw, *i as usize)).to_string()), oob, 2)
                }
                Op::HashBuf { v, data } => {
                    let d = data.bytes();
                    (guarded(|| with_kind!(*v, K => format!("{:?}", <K as Kind>::hash_buf(&d).map(|x| x.to_string())))), false, 3)
                }
                Op::CompareStr { v, a, b } => {
                    let (a, b) = (String::from_utf8_lossy(a).into_owned(), String::from_utf8_lossy(b).into_owned());
                    (guarded(|| compare_str(*v, &a, &b)), false, 4)
                }
            };
            match res {
                Ok(s) => {
                    fnv.write(s.as_bytes());
                    if allowed_panic {
                        // the property only *permits* this panic; a tree that returns a value instead holds the property
                        st.hit("probe.quartile_out_of_range_returned_a_value");
                    }
                }
                Err(p) => {
                    fnv.write(b"panic");
                    if allowed_panic {
                        st.hit("probe.documented_panic_observed");
                    } else {
                        violation = Some(Violation { class: format!("panic:{}", panic_class(&p)), detail: format!("step {step} {op:?}: undocumented panic: {p}") });
                    }
                }
            }
            states.push(kind << 8 | allowed_panic as u64);
            if violation.is_some() {
                break;
            }
        }
        Outcome { violation, digest: fnv.finish(), nontrivial: h.ops.len() >= 2, states }
    }
    fn shrink(&self, h: &Hist) -> Vec<Hist> {
        let mut out = Vec::new();
        let n = h.ops.len();
        if n > 1 {
            out.push(Hist { ops: h.ops[..n / 2].to_vec(), small_stack: h.small_stack });
            out.push(Hist { ops: h.ops[n / 2..].to_vec(), small_stack: h.small_stack });
        }
        if h.small_stack {
            out.push(Hist { ops: h.ops.clone(), small_stack: false });
        }
        for i in 0..n {
            let mut c = h.clone();
            c.ops.remove(i);
            out.push(c);
        }
        for i in 0..n {
            if let Op::W(w) = &h.ops[i] {
                for s in shrink_op(w) {
                    let mut c = h.clone();
                    c.ops[i] = Op::W(s);
                    out.push(c);
                }
            }
            if let Op::HashBuf { v, data } = &h.ops[i] {
                for d in data.shrink() {
                    let mut c = h.clone();
                    c.ops[i] = Op::HashBuf { v: *v, data: d };
                    out.push(c);
                }
            }
        }
        out
    }
    fn to_json(&self, h: &Hist) -> Value {
        json!({"ops": h.ops.iter().map(|o| match o {
            Op::W(w) => op_json(w),
            Op::Quartile { v, raw, i } => json!({"op":"quartile","v":v,"raw":hex(raw),"i":i}),
            Op::HashBuf { v, data } => json!({"op":"hash_buf","v":v,"data":data.to_json()}),
            Op::CompareStr { v, a, b } => json!({"op":"compare_str","v":v,"a":hex(a),"b":hex(b)}),
        }).collect::<Vec<_>>(), "small_stack": h.small_stack})
    }
    fn from_json(&self, v: &Value) -> Result<Hist, String> {
        let mut ops = Vec::new();
        for j in v["ops"].as_array().ok_or("ops")? {
            let vv = j["v"].as_u64().unwrap_or(0) as u8;
            ops.push(match j["op"].as_str().ok_or("op")? {
                "quartile" => Op::Quartile { v: vv, raw: unhex(j["raw"].as_str().ok_or("raw")?)?, i: j["i"].as_u64().ok_or("i")? as u16 },
                "hash_buf" => Op::HashBuf { v: vv, data: DataDesc::from_json(&j["data"])? },
                "compare_str" => Op::CompareStr { v: vv, a: unhex(j["a"].as_str().ok_or("a")?)?, b: unhex(j["b"].as_str().ok_or("b")?)? },
                _ => Op::W(op_from(j)?),
            });
        }
        Ok(Hist { ops, small_stack: v["small_stack"].as_bool().unwrap_or(false) })
    }
}
