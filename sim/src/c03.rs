//! C03 — chunking / finalize / clone independence (op-history simulator).
//!
//! World: up to 6 live generators of one variant, a byte pool, a history of
//! update / finalize / clone / drop / processed_len operations delivered at arbitrary instants.
//! Oracle (the property's own): a generator that has *seen* bytes B is observationally equal to a
//! fresh generator after one update(B): processed_len() and finalize_with_options(o) for all o.

use crate::data::{draw_data, draw_small_len, DataDesc};
use crate::framework::{guarded, panic_class, Outcome, Scenario, Stats, Violation};
use crate::kinds::{options, render, Kind, VARIANT_NAMES};
use crate::prng::{Fnv, Rng};
use crate::with_kind;
use serde_json::{json, Value};
use tlsh::GeneratorType;

#[derive(Clone, Debug, Hash, PartialEq, Eq)]
pub enum Op {
    /// feed pool[off .. off+len] (clamped to the pool) to generator g
    Update { g: u8, off: u32, len: u32 },
    /// finalize generator g with option setting o (0..32); compare with the fresh one-shot result
    Finalize { g: u8, o: u8 },
    /// all 32 option settings
    FinalizeAll { g: u8 },
    Len { g: u8 },
    /// clone g; the clone becomes a new live generator that continues on its own
    Clone { g: u8 },
    Drop { g: u8 },
    /// feed pool[off .. off+total] as consecutive pieces of `chunk` bytes each (many tiny or block-sized pieces in one op)
    UpdateChunks { g: u8, off: u32, total: u32, chunk: u32 },
    /// replace generator g by a fresh one (via new() or Default::default())
    Reset { g: u8, via_default: bool },
    /// `live[dst].clone_from(&live[src])` (in-place clone: the destination's old state must vanish completely)
    CloneFrom { dst: u8, src: u8 },
    /// generator g is *moved to a freshly spawned thread*, fed pool[off .. off+len] and finalized (option setting o)
    /// and cloned there, then moved back: a generator is plain data, who touches it on which thread must not matter
    ThreadHop { g: u8, off: u32, len: u32, o: u8 },
    /// two *different* inputs of the same length whose checksums collide (searched for; 1-byte-checksum variants), fed
    /// one after the other to fresh generators living in the SAME slot (same address), each finalized: every cheap
    /// summary of the two states (address, length, checksum) is equal, the results must not be
    Collide { g: u8, seed: u64, n: u16 },
}

/// Moves a generator to another thread without requiring `Send` from the type (a tree whose generator stops being
/// `Send` still holds the property; the simulator must keep compiling there).  Nothing is shared: the value is moved.
struct Carry<T>(T);
unsafe impl<T> Send for Carry<T> {}

#[derive(Clone, Debug, Hash, PartialEq, Eq)]
pub struct Hist {
    pub variant: u8,
    pub pool: DataDesc,
    pub ops: Vec<Op>,
}

pub struct C03;

const MAX_LIVE: usize = 6;

fn draw_piece_len(r: &mut Rng, pool: usize) -> u32 {
    let v = match r.below(100) {
        0..=7 => 0,
        8..=47 => r.range(1, 5),
        48..=64 => r.range(6, 16),
        65..=84 => r.range(17, 4096),
        85..=91 => pool as u64,
        92..=95 => {
            // block-size boundaries: 2^k - 1, 2^k, 2^k + 1
            let k = r.range(4, 21);
            (1u64 << k) + r.below(3) - 1
        }
        _ => r.range(1, (pool as u64).max(1)),
    };
    v.min(pool as u64) as u32
}

fn kind_code(op: &Op) -> u64 {
    match op {
        Op::Update { .. } => 1,
        Op::Finalize { .. } => 2,
        Op::FinalizeAll { .. } => 3,
        Op::Len { .. } => 4,
        Op::Clone { .. } => 5,
        Op::Drop { .. } => 6,
        Op::UpdateChunks { .. } => 7,
        Op::Reset { .. } => 8,
        Op::CloneFrom { .. } => 9,
        Op::ThreadHop { .. } => 10,
        Op::Collide { .. } => 11,
    }
}

struct Live<K: Kind> {
    g: K::G,
    seen: Vec<u8>,
}

fn run<K: Kind>(h: &Hist, pool: &[u8], st: &mut Stats, fnv: &mut Fnv, states: &mut Vec<u64>) -> Option<Violation> {
    let mut live: Vec<Live<K>> = vec![Live { g: K::new_gen(), seen: Vec::new() }];
    let mut prev_kind = 0u64;
    let mk = |class: &str, detail: String| Some(Violation { class: class.to_string(), detail });
    let check_all = |l: &Live<K>, which: &[u8], fnv: &mut Fnv| -> Option<Violation> {
        let mut fresh = K::new_gen();
        fresh.update(&l.seen);
        if l.g.processed_len() != fresh.processed_len() || l.g.processed_len() != u32::try_from(l.seen.len()).ok() {
            return Some(Violation {
                class: "processed-len".into(),
                detail: format!("after {} bytes: processed_len()={:?}, one-shot {:?}", l.seen.len(), l.g.processed_len(), fresh.processed_len()),
            });
        }
        for &o in which {
            let opt = options(o);
            let a = render(&l.g.finalize_with_options(&opt));
            let b = render(&fresh.finalize_with_options(&opt));
            let a2 = render(&l.g.finalize_with_options(&opt));
            fnv.write(a.as_bytes());
            if a != a2 {
                return Some(Violation { class: "finalize-not-idempotent".into(), detail: format!("options#{o}: first {a}, second {a2}") });
            }
            if a != b {
                return Some(Violation {
                    class: "chunked-differs-from-one-shot".into(),
                    detail: format!("{} bytes seen, options#{o}: chunked history gives {a}, one update gives {b}", l.seen.len()),
                });
            }
        }
        None
    };
    const ALL: [u8; 32] = {
        let mut a = [0u8; 32];
        let mut i = 0;
        while i < 32 {
            a[i] = i as u8;
            i += 1;
        }
        a
    };
    for (step, op) in h.ops.iter().enumerate() {
        st.hit("ops");
        let n = live.len();
        if n == 0 {
            live.push(Live { g: K::new_gen(), seen: Vec::new() });
        }
        let n = live.len();
        let gi = |g: u8| (g as usize) % n;
        match op {
            Op::Update { g, off, len } => {
                let i = gi(*g);
                let off = (*off as usize).min(pool.len());
                let end = (off + *len as usize).min(pool.len());
                let piece = &pool[off..end];
                let tail_before = live[i].seen.len().min(4) as u64;
                let pc = piece.len().min(5) as u64;
                states.push((K::ID as u64) << 16 | tail_before << 12 | pc << 8 | prev_kind);
                match (tail_before, piece.len()) {
                    (_, 0) => st.hit("probe.empty_piece"),
                    (t, p) if t < 4 && (t as usize + p) <= 4 => st.hit("probe.prologue_fits_and_returns"),
                    (t, _) if t < 4 => st.hit("probe.prologue_fills_and_continues"),
                    (_, p) if p >= 4 => st.hit("probe.tail_full_overwrite"),
                    _ => st.hit("probe.tail_shift_and_write"),
                }
                let before = live[i].seen.len();
                for th in [9usize, 10, 49, 50, 127, 128] {
                    if before < th && before + piece.len() >= th {
                        st.hit("probe.crossed_length_threshold");
                    }
                }
                live[i].g.update(piece);
                live[i].seen.extend_from_slice(piece);
                let l = &live[i];
                if l.g.processed_len() != Some(l.seen.len() as u32) {
                    return mk("processed-len", format!("step {step}: after {} bytes processed_len()={:?}", l.seen.len(), l.g.processed_len()));
                }
            }
            Op::Finalize { g, o } => {
                let i = gi(*g);
                if prev_kind == 1 && live[i].seen.len() < 4 {
                    st.hit("probe.finalize_with_partial_tail");
                }
                st.hit("fault.finalize_at_arbitrary_instant");
                if let Some(v) = check_all(&live[i], &[*o], fnv) {
                    return Some(Violation { detail: format!("step {step}: {}", v.detail), ..v });
                }
            }
            Op::FinalizeAll { g } => {
                let i = gi(*g);
                if let Some(v) = check_all(&live[i], &ALL, fnv) {
                    return Some(Violation { detail: format!("step {step}: {}", v.detail), ..v });
                }
            }
            Op::Len { g } => {
                let i = gi(*g);
                if live[i].g.processed_len() != Some(live[i].seen.len() as u32) {
                    return mk("processed-len", format!("step {step}: {:?} vs {}", live[i].g.processed_len(), live[i].seen.len()));
                }
            }
            Op::Clone { g } => {
                let i = gi(*g);
                if live.len() < MAX_LIVE {
                    if live[i].seen.len() < 4 {
                        st.hit("probe.clone_with_partial_tail");
                    }
                    let c = Live::<K> { g: live[i].g.clone(), seen: live[i].seen.clone() };
                    live.push(c);
                    st.hit("clones");
                    st.hit("fault.clone_at_arbitrary_instant");
                }
            }
            Op::Drop { g } => {
                let i = gi(*g);
                if live.len() > 1 {
                    live.remove(i);
                }
            }
            Op::UpdateChunks { g, off, total, chunk } => {
                let i = gi(*g);
                let off = (*off as usize).min(pool.len());
                let end = (off + *total as usize).min(pool.len());
                let c = (*chunk).max(1) as usize;
                let mut n = 0u64;
                for piece in pool[off..end].chunks(c) {
                    live[i].g.update(piece);
                    n += 1;
                }
                live[i].seen.extend_from_slice(&pool[off..end]);
                st.add("pieces_in_chunked_updates", n);
                if n >= 256 {
                    st.hit("probe.ge_256_consecutive_pieces");
                }
                states.push((K::ID as u64) << 16 | 0xf << 12 | (c.min(9) as u64) << 8 | prev_kind);
                let l = &live[i];
                if l.g.processed_len() != Some(l.seen.len() as u32) {
                    return mk("processed-len", format!("step {step}: after {} bytes processed_len()={:?}", l.seen.len(), l.g.processed_len()));
                }
            }
            Op::Reset { g, via_default } => {
                let i = gi(*g);
                live[i] = Live { g: if *via_default { <K::G as Default>::default() } else { K::new_gen() }, seen: Vec::new() };
            }
            Op::CloneFrom { dst, src } => {
                let (d, sidx) = (gi(*dst), gi(*src));
                if d != sidx {
                    let (sg, sseen) = (live[sidx].g.clone(), live[sidx].seen.clone());
                    if live[d].seen.len() >= 5 && sseen.len() < 5 {
                        st.hit("probe.clone_from_short_source_into_used_destination");
                    }
                    live[d].g.clone_from(&sg);
                    live[d].seen = sseen;
                    st.hit("clone_from");
                    if let Some(v) = check_all(&live[d], &[30, 0], fnv) {
                        return Some(Violation { class: format!("clone-from-{}", v.class), detail: format!("step {step}: after clone_from: {}", v.detail) });
                    }
                }
            }
            Op::Collide { g, seed, n } => {
                let i = gi(*g);
                let n = (*n as usize).clamp(10, 400);
                let bytes = |sd: u64| {
                    let mut v = vec![0u8; n];
                    Rng::new(sd).fill(&mut v);
                    v
                };
                let ck = |d: &[u8]| -> Option<[u8; 3]> {
                    let mut t = K::new_gen();
                    t.update(d);
                    t.finalize_with_options(&options(28)).ok().map(|h| {
                        let mut o = [0u8; 3];
                        K::ck_data(&h, &mut o);
                        o
                    })
                };
                let a = bytes(*seed);
                let mut b = bytes(seed.wrapping_add(1));
                if K::CKSUM == 1 {
                    if let Some(cka) = ck(&a) {
                        for k in 1..4000u64 {
                            let cand = bytes(seed.wrapping_add(k));
                            if cand != a && ck(&cand) == Some(cka) {
                                b = cand;
                                st.hit("probe.checksum_collision_found");
                                break;
                            }
                        }
                    }
                }
                st.hit("fault.same_slot_reused_for_colliding_input");
                for d in [a, b] {
                    live[i].g = K::new_gen(); // assignment in place: the new generator lives at the old one's address
                    live[i].g.update(&d);
                    live[i].seen = d;
                    if let Some(v) = check_all(&live[i], &[30, 0], fnv) {
                        return Some(Violation { detail: format!("step {step} (second of two colliding inputs in one slot): {}", v.detail), ..v });
                    }
                }
            }
            Op::ThreadHop { g, off, len, o } => {
                let i = gi(*g);
                let off = (*off as usize).min(pool.len());
                let end = (off + *len as usize).min(pool.len());
                let piece = &pool[off..end];
                let opt_id = *o;
                let moved = Carry(std::mem::replace(&mut live[i].g, K::new_gen()));
                st.hit("fault.generator_moved_to_fresh_thread");
                let back = std::thread::scope(|sc| {
                    sc.spawn(move || {
                        let mut m = moved;
                        m.0.update(piece);
                        let a = render(&m.0.finalize_with_options(&options(opt_id)));
                        let c = Carry(m.0.clone());
                        (m, a, c)
                    })
                    .join()
                });
                let (m, a, c) = match back {
                    Ok(x) => x,
                    Err(_) => return mk("panic:on-another-thread", format!("step {step}: update/finalize/clone of a generator moved to a fresh thread panicked")),
                };
                live[i].g = m.0;
                live[i].seen.extend_from_slice(piece);
                let mut fresh = K::new_gen();
                fresh.update(&live[i].seen);
                let b = render(&fresh.finalize_with_options(&options(opt_id)));
                if a != b {
                    return mk("chunked-differs-from-one-shot", format!("step {step}: {} bytes seen, options#{opt_id}: finalize on the thread the generator was moved to gives {a}, one update gives {b}", live[i].seen.len()));
                }
                if let Some(v) = check_all(&live[i], &[opt_id, 30], fnv) {
                    return Some(Violation { detail: format!("step {step} (generator moved back from another thread): {}", v.detail), ..v });
                }
                if live.len() < MAX_LIVE {
                    let seen = live[i].seen.clone();
                    live.push(Live { g: c.0, seen });
                }
            }
        }
        prev_kind = kind_code(op);
    }
    // end of run: every live generator, every option setting
    for l in &live {
        if let Some(v) = check_all(l, &ALL, fnv) {
            return Some(Violation { detail: format!("end of run: {}", v.detail), ..v });
        }
        // ... and a second, fixed chunking of the same bytes (997-byte pieces): whatever shape the history had, this
        // compares "one big piece" with "many medium pieces" (a size-gated path in update() shows up here even when the
        // history itself fed everything in one piece)
        if l.seen.len() >= 2000 {
            let mut c = K::new_gen();
            for piece in l.seen.chunks(997) {
                c.update(piece);
            }
            st.hit("probe.second_reference_chunking");
            for o in [30u8, 28, 0] {
                let opt = options(o);
                let a = render(&c.finalize_with_options(&opt));
                let b = render(&l.g.finalize_with_options(&opt));
                if a != b || c.processed_len() != l.g.processed_len() {
                    return mk("chunked-differs-from-one-shot", format!("end of run: {} bytes seen, options#{o}: the history gives {b} (len {:?}), the same bytes in 997-byte pieces give {a} (len {:?})", l.seen.len(), l.g.processed_len(), c.processed_len()));
                }
            }
        }
    }
    None
}

impl Scenario for C03 {
    type Hist = Hist;
    fn name(&self) -> &'static str {
        "c03"
    }
    fn property(&self) -> &'static str {
        "C03"
    }
    fn rule(&self) -> &'static str {
        "history = (variant, byte pool descriptor, op list over update / chunked-update (many equal pieces) / finalize / finalize-all / processed_len / clone / drop / reset on up to 6 live generators); \
         distinct = distinct history digests; non-trivial = at least 2 update ops with a non-empty piece and at least one finalize/clone between or after them; \
         states = distinct (variant, tail length before update, min(piece,5), previous op kind)"
    }
    fn generate(&self, r: &mut Rng, _index: u64) -> Hist {
        let variant = r.below(5) as u8;
        let len = match r.below(100) {
            0..=69 => draw_small_len(r).min(400),
            70..=91 => draw_small_len(r),
            92..=94 => r.range(4096, 65536) as usize,
            95..=97 => *r.pick(&[40_000usize, 65535, 65536, 65537, 70_000, 100_000, 131072, 200_000, 262144 + 5, 524288]),
            _ => r.range(1 << 20, 3 << 20) as usize,
        };
        let len = if crate::data::small() { len.min(300) } else { len };
        let mut pool = draw_data(r, len);
        if len >= 32768 && r.chance(2, 5) {
            // long stretches of extremely repetitive data (one or two byte values): per-bucket hit rates of several per byte
            let p = r.range(1, 3) as usize;
            let mut pattern = vec![0u8; p];
            r.fill(&mut pattern);
            if r.chance(1, 4) {
                pattern = vec![0xa4, 0x0e];
            }
            pool = DataDesc::Periodic { pattern, len };
        }
        let nops = if crate::data::small() {
            r.range(1, 12)
        } else if len > 1 << 19 {
            r.range(2, 8)
        } else {
            r.range(1, 64)
        } as usize;
        let sequential = r.chance(3, 4);
        let mut cursor = 0u32;
        let mut ops = Vec::with_capacity(nops);
        let wf = r.range(5, 40); // weight of finalize ops
        let wc = r.range(0, 15); // weight of clone ops
        for _ in 0..nops {
            let g = r.below(MAX_LIVE as u64) as u8;
            let x = r.below(100 + wf + wc);
            let op = if x < 70 {
                let l = draw_piece_len(r, len);
                let off = if sequential { cursor } else { r.below(len as u64 + 1) as u32 };
                cursor = (cursor + l).min(len as u32);
                if sequential && cursor as usize >= len && r.chance(1, 2) {
                    cursor = 0;
                }
                Op::Update { g, off, len: l }
            } else if x < 73 {
                let chunk = *r.pick(&[1u32, 1, 1, 2, 3, 4, 5, 7, 16, 64, 4096]);
                let total = if chunk <= 7 { r.range(1, 700) } else { r.range(1, (len as u64).max(1)) } as u32;
                let off = if sequential { cursor } else { r.below(len as u64 + 1) as u32 };
                cursor = (cursor + total).min(len as u32);
                Op::UpdateChunks { g, off, total, chunk }
            } else if x < 74 {
                if r.chance(1, 3) {
                    Op::Collide { g, seed: r.next_u64() & 0xffff_ffff, n: r.range(50, 300) as u16 }
                } else if r.chance(1, 2) {
                    let l = draw_piece_len(r, len).min(70_000);
                    let off = if sequential { cursor } else { r.below(len as u64 + 1) as u32 };
                    cursor = (cursor + l).min(len as u32);
                    Op::ThreadHop { g, off, len: l, o: if r.chance(1, 2) { 30 } else { r.below(32) as u8 } }
                } else {
                    Op::Reset { g, via_default: r.chance(1, 2) }
                }
            } else if x < 76 {
                Op::CloneFrom { dst: g, src: r.below(MAX_LIVE as u64) as u8 }
            } else if x < 78 {
                Op::Len { g }
            } else if x < 84 {
                Op::Drop { g }
            } else if x < 88 {
                Op::FinalizeAll { g }
            } else if x < 100 + wf {
                let o = if r.chance(1, 2) { *r.pick(&[30u8, 28, 0, 2]) } else { r.below(32) as u8 };
                Op::Finalize { g, o }
            } else {
                Op::Clone { g }
            };
            ops.push(op);
        }
        Hist { variant, pool, ops }
    }
    fn execute(&self, h: &Hist, st: &mut Stats) -> Outcome {
        let pool = h.pool.bytes();
        let mut fnv = Fnv::new();
        let mut states = Vec::new();
        st.hit("runs");
        let res = guarded(|| with_kind!(h.variant, K => run::<K>(h, &pool, st, &mut fnv, &mut states)));
        let violation = match res {
            Ok(v) => v,
            Err(p) => Some(Violation { class: format!("panic:{}", panic_class(&p)), detail: format!("panic: {p}") }),
        };
        let upd = h.ops.iter().filter(|o| matches!(o, Op::Update { len, .. } if *len > 0) || matches!(o, Op::UpdateChunks { .. })).count();
        let other = h.ops.iter().filter(|o| matches!(o, Op::Finalize { .. } | Op::FinalizeAll { .. } | Op::Clone { .. })).count();
        Outcome { violation, digest: fnv.finish(), nontrivial: upd >= 2 && other >= 1 && h.pool.len() > 0, states }
    }
    fn shrink(&self, h: &Hist) -> Vec<Hist> {
        let mut out = Vec::new();
        let n = h.ops.len();
        if n > 1 {
            let mut a = h.clone();
            a.ops.truncate(n / 2);
            out.push(a);
            let mut b = h.clone();
            b.ops.drain(..n / 2);
            out.push(b);
        }
        for i in 0..n {
            let mut c = h.clone();
            c.ops.remove(i);
            out.push(c);
        }
        for d in h.pool.shrink() {
            let mut c = h.clone();
            c.pool = d;
            out.push(c);
        }
        for (i, op) in h.ops.iter().enumerate() {
            if let Op::Update { g, off, len } = op {
                for nl in [0u32, 1, 4, 5, len / 2, len.saturating_sub(1)] {
                    if nl < *len {
                        let mut c = h.clone();
                        c.ops[i] = Op::Update { g: *g, off: *off, len: nl };
                        out.push(c);
                    }
                }
                if *off != 0 {
                    let mut c = h.clone();
                    c.ops[i] = Op::Update { g: *g, off: 0, len: *len };
                    out.push(c);
                }
                if *g != 0 {
                    let mut c = h.clone();
                    c.ops[i] = Op::Update { g: 0, off: *off, len: *len };
                    out.push(c);
                }
            }
            if let Op::UpdateChunks { g, off, total, chunk } = op {
                for nt in [total / 2, total.saturating_sub(1), *chunk * 2] {
                    if nt < *total {
                        let mut c = h.clone();
                        c.ops[i] = Op::UpdateChunks { g: *g, off: *off, total: nt, chunk: *chunk };
                        out.push(c);
                    }
                }
                let mut c = h.clone();
                c.ops[i] = Op::Update { g: *g, off: *off, len: *total };
                out.push(c);
            }
            if let Op::FinalizeAll { g } = op {
                for o in [30u8, 0] {
                    let mut c = h.clone();
                    c.ops[i] = Op::Finalize { g: *g, o };
                    out.push(c);
                }
            }
        }
        if h.variant != 1 {
            let mut c = h.clone();
            c.variant = 1;
            out.push(c);
        }
        out
    }
    fn to_json(&self, h: &Hist) -> Value {
        let ops: Vec<String> = h
            .ops
            .iter()
            .map(|o| match o {
                Op::Update { g, off, len } => format!("Update({g},{off},{len})"),
                Op::Finalize { g, o } => format!("Finalize({g},{o})"),
                Op::FinalizeAll { g } => format!("FinalizeAll({g})"),
                Op::Len { g } => format!("Len({g})"),
                Op::Clone { g } => format!("Clone({g})"),
                Op::Drop { g } => format!("Drop({g})"),
                Op::UpdateChunks { g, off, total, chunk } => format!("UpdateChunks({g},{off},{total},{chunk})"),
                Op::Reset { g, via_default } => format!("Reset({g},{})", *via_default as u8),
                Op::CloneFrom { dst, src } => format!("CloneFrom({dst},{src})"),
                Op::ThreadHop { g, off, len, o } => format!("ThreadHop({g},{off},{len},{o})"),
                Op::Collide { g, seed, n } => format!("Collide({g},{seed},{n})"),
            })
            .collect();
        json!({"variant": VARIANT_NAMES[h.variant as usize], "variant_id": h.variant, "pool": h.pool.to_json(), "ops": ops,
               "legend": "Update(generator, pool offset, length) Finalize(generator, option bits: 1 conservative, 2 integer q-ratio, 4 allow small, 8 allow half, 16 allow quarter)"})
    }
    fn from_json(&self, v: &Value) -> Result<Hist, String> {
        let mut ops = Vec::new();
        for e in v["ops"].as_array().ok_or("ops")? {
            let s = e.as_str().ok_or("op")?;
            let a = s.find('(').ok_or("(")?;
            let name = &s[..a];
            let args: Vec<u32> = s[a + 1..s.len() - 1]
                .split(',')
                .filter(|x| !x.is_empty())
                .map(|x| x.trim().parse::<u32>().map_err(|e| e.to_string()))
                .collect::<Result<_, _>>()?;
            let need = |n: usize| if args.len() == n { Ok(()) } else { Err(format!("bad arity in {s}")) };
            ops.push(match name {
                "Update" => {
                    need(3)?;
                    Op::Update { g: args[0] as u8, off: args[1], len: args[2] }
                }
                "Finalize" => {
                    need(2)?;
                    Op::Finalize { g: args[0] as u8, o: args[1] as u8 }
                }
                "FinalizeAll" => {
                    need(1)?;
                    Op::FinalizeAll { g: args[0] as u8 }
                }
                "Len" => {
                    need(1)?;
                    Op::Len { g: args[0] as u8 }
                }
                "Clone" => {
                    need(1)?;
                    Op::Clone { g: args[0] as u8 }
                }
                "Drop" => {
                    need(1)?;
                    Op::Drop { g: args[0] as u8 }
                }
                "UpdateChunks" => {
                    need(4)?;
                    Op::UpdateChunks { g: args[0] as u8, off: args[1], total: args[2], chunk: args[3] }
                }
                "Reset" => {
                    need(2)?;
                    Op::Reset { g: args[0] as u8, via_default: args[1] != 0 }
                }
                "CloneFrom" => {
                    need(2)?;
                    Op::CloneFrom { dst: args[0] as u8, src: args[1] as u8 }
                }
                "Collide" => {
                    need(3)?;
                    Op::Collide { g: args[0] as u8, seed: args[1] as u64, n: args[2] as u16 }
                }
                "ThreadHop" => {
                    need(4)?;
                    Op::ThreadHop { g: args[0] as u8, off: args[1], len: args[2], o: args[3] as u8 }
                }
                _ => return Err(format!("unknown op {s}")),
            });
        }
        Ok(Hist { variant: v["variant_id"].as_u64().ok_or("variant_id")? as u8, pool: DataDesc::from_json(&v["pool"])?, ops })
    }
}
