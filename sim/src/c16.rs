//! C16 — serde under storage / transport faults and Byzantine (de)serializers.
//!
//! Scenario "c16": hash -> serde_json | ciborium | postcard through a faulty writer -> damaged medium
//!                 -> read back through a faulty reader or from a slice, with a transparent recording layer
//!                 between the real format crate and fast-tlsh's visitor.
//! Scenario "c16mock": scripted (de)serializer that answers any hint with any visitor event.
//!
//! Oracle: what reached fast-tlsh's visitor is judged by the matching parser *of the same build*:
//!   (human-readable, str-like p)   <-> from_str_bytes(p, None)
//!   (compact,       bytes-like p)  <-> TryFrom<&[u8]>(p)
//!   (human-readable, bytes-like p) and (compact, str-like p): Err, or Ok(value of from_str_bytes(p))  [may-accept]
//!   anything else                  ->  Err
//! never a panic; fault-free round trip is lossless and the encodings are byte-exact.

use crate::data::{draw_data, draw_small_len, hex, unhex, DataDesc};
use crate::framework::{guarded, panic_class, Outcome, Scenario, Stats, Violation};
use crate::kinds::{options, Kind, OPT_PERMISSIVE_F32, OPT_PERMISSIVE_INT, VARIANT_NAMES};
use crate::prng::{Fnv, Rng};
use crate::with_kind;
use serde::de::{Deserialize, DeserializeOwned, Deserializer, EnumAccess, MapAccess, SeqAccess, Visitor};
use serde::ser::{Serialize, Serializer};
use serde_json::{json, Value};
use std::cell::RefCell;
use std::io::{self, ErrorKind, Read, Write};
use tlsh::{FuzzyHashType, GeneratorType, HexStringPrefix};

// ------------------------------------------------------------------------------------------------
// recording layer
// ------------------------------------------------------------------------------------------------
#[derive(Clone, Debug, PartialEq)]
pub struct Seen {
    pub kind: &'static str,
    pub payload: Vec<u8>,
}

thread_local! {
    static LOG: RefCell<Vec<Seen>> = const { RefCell::new(Vec::new()) };
    static HINTS: RefCell<Vec<&'static str>> = const { RefCell::new(Vec::new()) };
    static HR: RefCell<Option<bool>> = const { RefCell::new(None) };
    /// inner result of `H::deserialize(Recording(d))`: Ok(rendered hash) | Err(())
    static INNER: RefCell<Option<Result<String, String>>> = const { RefCell::new(None) };
}
fn reset_log() {
    LOG.with(|l| l.borrow_mut().clear());
    HINTS.with(|l| l.borrow_mut().clear());
    HR.with(|l| *l.borrow_mut() = None);
    INNER.with(|l| *l.borrow_mut() = None);
}
fn ev(kind: &'static str, payload: &[u8]) {
    LOG.with(|l| l.borrow_mut().push(Seen { kind, payload: payload.to_vec() }));
}
fn hint(h: &'static str) {
    HINTS.with(|l| l.borrow_mut().push(h));
}

struct Rec<D>(D);
struct RecV<V>(V);

macro_rules! fwd_de {
    ($($m:ident),*) => { $(
        fn $m<V: Visitor<'de>>(self, v: V) -> Result<V::Value, Self::Error> { hint(stringify!($m)); self.0.$m(RecV(v)) }
    )* };
}
impl<'de, D: Deserializer<'de>> Deserializer<'de> for Rec<D> {
    type Error = D::Error;
    fn is_human_readable(&self) -> bool {
        let hr = self.0.is_human_readable();
        HR.with(|l| *l.borrow_mut() = Some(hr));
        hr
    }
    fwd_de!(
        deserialize_any, deserialize_bool, deserialize_i8, deserialize_i16, deserialize_i32, deserialize_i64, deserialize_i128,
        deserialize_u8, deserialize_u16, deserialize_u32, deserialize_u64, deserialize_u128, deserialize_f32, deserialize_f64,
        deserialize_char, deserialize_str, deserialize_string, deserialize_bytes, deserialize_byte_buf, deserialize_option,
        deserialize_unit, deserialize_seq, deserialize_map, deserialize_identifier, deserialize_ignored_any
    );
    fn deserialize_unit_struct<V: Visitor<'de>>(self, n: &'static str, v: V) -> Result<V::Value, Self::Error> {
        hint("deserialize_unit_struct");
        self.0.deserialize_unit_struct(n, RecV(v))
    }
    fn deserialize_newtype_struct<V: Visitor<'de>>(self, n: &'static str, v: V) -> Result<V::Value, Self::Error> {
        hint("deserialize_newtype_struct");
        self.0.deserialize_newtype_struct(n, RecV(v))
    }
    fn deserialize_tuple<V: Visitor<'de>>(self, len: usize, v: V) -> Result<V::Value, Self::Error> {
        hint("deserialize_tuple");
        self.0.deserialize_tuple(len, RecV(v))
    }
    fn deserialize_tuple_struct<V: Visitor<'de>>(self, n: &'static str, len: usize, v: V) -> Result<V::Value, Self::Error> {
        hint("deserialize_tuple_struct");
        self.0.deserialize_tuple_struct(n, len, RecV(v))
    }
    fn deserialize_struct<V: Visitor<'de>>(self, n: &'static str, f: &'static [&'static str], v: V) -> Result<V::Value, Self::Error> {
        hint("deserialize_struct");
        self.0.deserialize_struct(n, f, RecV(v))
    }
    fn deserialize_enum<V: Visitor<'de>>(self, n: &'static str, f: &'static [&'static str], v: V) -> Result<V::Value, Self::Error> {
        hint("deserialize_enum");
        self.0.deserialize_enum(n, f, RecV(v))
    }
}

macro_rules! fwd_vis_scalar {
    ($($m:ident : $t:ty => $k:expr),*) => { $(
        fn $m<E: serde::de::Error>(self, v: $t) -> Result<Self::Value, E> { ev($k, format!("{v:?}").as_bytes()); self.0.$m(v) }
    )* };
}
impl<'de, V: Visitor<'de>> Visitor<'de> for RecV<V> {
    type Value = V::Value;
    fn expecting(&self, f: &mut std::fmt::Formatter) -> std::fmt::Result {
        self.0.expecting(f)
    }
    fwd_vis_scalar!(
        visit_bool: bool => "bool", visit_i8: i8 => "i8", visit_i16: i16 => "i16", visit_i32: i32 => "i32", visit_i64: i64 => "i64",
        visit_i128: i128 => "i128", visit_u8: u8 => "u8", visit_u16: u16 => "u16", visit_u32: u32 => "u32", visit_u64: u64 => "u64",
        visit_u128: u128 => "u128", visit_f32: f32 => "f32", visit_f64: f64 => "f64", visit_char: char => "char"
    );
    fn visit_str<E: serde::de::Error>(self, v: &str) -> Result<Self::Value, E> {
        ev("str", v.as_bytes());
        self.0.visit_str(v)
    }
    fn visit_borrowed_str<E: serde::de::Error>(self, v: &'de str) -> Result<Self::Value, E> {
        ev("borrowed_str", v.as_bytes());
        self.0.visit_borrowed_str(v)
    }
    fn visit_string<E: serde::de::Error>(self, v: String) -> Result<Self::Value, E> {
        ev("string", v.as_bytes());
        self.0.visit_string(v)
    }
    fn visit_bytes<E: serde::de::Error>(self, v: &[u8]) -> Result<Self::Value, E> {
        ev("bytes", v);
        self.0.visit_bytes(v)
    }
    fn visit_borrowed_bytes<E: serde::de::Error>(self, v: &'de [u8]) -> Result<Self::Value, E> {
        ev("borrowed_bytes", v);
        self.0.visit_borrowed_bytes(v)
    }
    fn visit_byte_buf<E: serde::de::Error>(self, v: Vec<u8>) -> Result<Self::Value, E> {
        ev("byte_buf", &v);
        self.0.visit_byte_buf(v)
    }
    fn visit_none<E: serde::de::Error>(self) -> Result<Self::Value, E> {
        ev("none", &[]);
        self.0.visit_none()
    }
    fn visit_unit<E: serde::de::Error>(self) -> Result<Self::Value, E> {
        ev("unit", &[]);
        self.0.visit_unit()
    }
    fn visit_some<D: Deserializer<'de>>(self, d: D) -> Result<Self::Value, D::Error> {
        ev("some", &[]);
        self.0.visit_some(d)
    }
    fn visit_newtype_struct<D: Deserializer<'de>>(self, d: D) -> Result<Self::Value, D::Error> {
        ev("newtype", &[]);
        self.0.visit_newtype_struct(d)
    }
    fn visit_seq<A: SeqAccess<'de>>(self, a: A) -> Result<Self::Value, A::Error> {
        ev("seq", &[]);
        self.0.visit_seq(a)
    }
    fn visit_map<A: MapAccess<'de>>(self, a: A) -> Result<Self::Value, A::Error> {
        ev("map", &[]);
        self.0.visit_map(a)
    }
    fn visit_enum<A: EnumAccess<'de>>(self, a: A) -> Result<Self::Value, A::Error> {
        ev("enum", &[]);
        self.0.visit_enum(a)
    }
}

/// Entered from inside the format crate: wraps its deserializer in the recording layer and calls
/// fast-tlsh's real `Deserialize` impl.
struct Probe<H>(H);
impl<'de, H: Deserialize<'de> + FuzzyHashType> Deserialize<'de> for Probe<H> {
    fn deserialize<D: Deserializer<'de>>(d: D) -> Result<Self, D::Error> {
        let r = H::deserialize(Rec(d));
        INNER.with(|l| {
            *l.borrow_mut() = Some(match &r {
                Ok(h) => Ok(render_h(h)),
                Err(e) => Err(e.to_string()),
            })
        });
        r.map(Probe)
    }
}

/// Like `Probe`, but enters through `Deserialize::deserialize_in_place` on an existing (valid) value.
struct ProbeInPlace<H>(H);
thread_local! {
    /// binary form of the value that is overwritten in place
    static PLACE: RefCell<Vec<u8>> = const { RefCell::new(Vec::new()) };
}
impl<'de, H: Deserialize<'de> + FuzzyHashType + for<'a> TryFrom<&'a [u8]>> Deserialize<'de> for ProbeInPlace<H> {
    fn deserialize<D: Deserializer<'de>>(d: D) -> Result<Self, D::Error> {
        let bytes = PLACE.with(|p| p.borrow().clone());
        let Ok(mut place) = H::try_from(&bytes[..]) else {
            return Err(serde::de::Error::custom("harness: no place value"));
        };
        let r = H::deserialize_in_place(Rec(d), &mut place);
        INNER.with(|l| {
            *l.borrow_mut() = Some(match &r {
                Ok(()) => Ok(render_h(&place)),
                Err(e) => Err(e.to_string()),
            })
        });
        r.map(|()| ProbeInPlace(place))
    }
}

fn render_h<H: FuzzyHashType>(h: &H) -> String {
    let mut buf = [0u8; 160];
    let n = h.store_into_str_bytes(&mut buf, HexStringPrefix::WithVersion).expect("fits");
    String::from_utf8_lossy(&buf[..n]).into_owned()
}

/// What the matching parser of this build says about the first visitor event.
enum Expect {
    /// must be Ok with exactly this rendered hash
    MustOk(String),
    /// must be Err
    MustErr,
    /// Err, or Ok with exactly this rendered hash
    MayOk(String),
}

fn expectation<K: Kind>(hr: bool, seen: Option<&Seen>) -> Expect {
    let Some(s) = seen else { return Expect::MustErr };
    let strlike = matches!(s.kind, "str" | "borrowed_str" | "string");
    let byteslike = matches!(s.kind, "bytes" | "borrowed_bytes" | "byte_buf");
    let text = || <K::H as FuzzyHashType>::from_str_bytes(&s.payload, None).ok().map(|h| render_h(&h));
    let bin = || <K::H as TryFrom<&[u8]>>::try_from(&s.payload[..]).ok().map(|h| render_h(&h));
    match (hr, strlike, byteslike) {
        (true, true, _) => text().map(Expect::MustOk).unwrap_or(Expect::MustErr),
        (false, _, true) => bin().map(Expect::MustOk).unwrap_or(Expect::MustErr),
        (true, _, true) => text().map(Expect::MayOk).unwrap_or(Expect::MustErr),
        (false, true, _) => text().map(Expect::MayOk).unwrap_or(Expect::MustErr),
        _ => Expect::MustErr,
    }
}

fn judge<K: Kind>(hr: bool, inner: &Option<Result<String, String>>, log: &[Seen]) -> Option<Violation> {
    let first = log.first();
    let exp = expectation::<K>(hr, first);
    let what = first.map(|s| format!("{}({} bytes: {})", s.kind, s.payload.len(), hex(&s.payload[..s.payload.len().min(80)]))).unwrap_or("no visitor event".into());
    let mode = if hr { "human-readable" } else { "compact" };
    match (exp, inner) {
        (_, None) => None, // fast-tlsh's Deserialize was never entered (format crate failed earlier)
        (Expect::MustOk(w), Some(Ok(g))) if *g == w => None,
        (Expect::MustOk(w), Some(Ok(g))) => Some(Violation { class: "de-wrong-value".into(), detail: format!("{mode} {what}: deserialized {g}, matching parser gives {w}") }),
        (Expect::MustOk(w), Some(Err(e))) => Some(Violation { class: "de-rejects-what-parser-accepts".into(), detail: format!("{mode} {what}: Err({e}) but the matching parser accepts it as {w}") }),
        (Expect::MustErr, Some(Ok(g))) => Some(Violation { class: "de-accepts-what-parser-rejects".into(), detail: format!("{mode} {what}: Ok({g}) but no matching parser accepts this event") }),
        (Expect::MustErr, Some(Err(_))) => None,
        (Expect::MayOk(w), Some(Ok(g))) if *g != w => Some(Violation { class: "de-wrong-value".into(), detail: format!("{mode} {what}: deserialized {g}, parser gives {w}") }),
        (Expect::MayOk(_), _) => None,
    }
}

// ------------------------------------------------------------------------------------------------
// faulty I/O
// ------------------------------------------------------------------------------------------------
#[derive(Clone, Debug, Hash, PartialEq, Eq, Default)]
pub struct IoPlan {
    /// max bytes accepted / delivered per call, cycled; empty = unlimited
    pub chunks: Vec<u16>,
    /// call indices (0-based) answered with ErrorKind::Interrupted
    pub eintr: Vec<u16>,
    /// (call index, kind) answered with a hard error; later calls succeed again
    pub hard: Option<(u16, u8)>,
}
const HARD: [ErrorKind; 4] = [ErrorKind::Other, ErrorKind::BrokenPipe, ErrorKind::WriteZero, ErrorKind::StorageFull];

struct FaultyWriter<'a> {
    plan: &'a IoPlan,
    out: Vec<u8>,
    calls: u16,
    fired_eintr: u64,
    fired_hard: bool,
    short: u64,
}
impl Write for FaultyWriter<'_> {
    fn write(&mut self, buf: &[u8]) -> io::Result<usize> {
        let c = self.calls;
        self.calls = self.calls.saturating_add(1);
        if self.calls > 20_000 {
            panic!("SIM-BUDGET: writer called too often");
        }
        if self.plan.eintr.contains(&c) {
            self.fired_eintr += 1;
            return Err(io::Error::from(ErrorKind::Interrupted));
        }
        if let Some((at, k)) = self.plan.hard {
            if at == c {
                self.fired_hard = true;
                return Err(io::Error::new(HARD[k as usize % HARD.len()], "injected write fault"));
            }
        }
        let lim = if self.plan.chunks.is_empty() { usize::MAX } else { self.plan.chunks[c as usize % self.plan.chunks.len()].max(1) as usize };
        let n = buf.len().min(lim);
        if n < buf.len() {
            self.short += 1;
        }
        self.out.extend_from_slice(&buf[..n]);
        Ok(n)
    }
    fn flush(&mut self) -> io::Result<()> {
        Ok(())
    }
}
struct FaultyReader<'a> {
    plan: &'a IoPlan,
    data: &'a [u8],
    pos: usize,
    calls: u16,
    fired_eintr: u64,
    fired_hard: bool,
    short: u64,
}
impl Read for FaultyReader<'_> {
    fn read(&mut self, buf: &mut [u8]) -> io::Result<usize> {
        let c = self.calls;
        self.calls = self.calls.saturating_add(1);
        if self.calls > 20_000 {
            panic!("SIM-BUDGET: reader called too often");
        }
        if self.plan.eintr.contains(&c) {
            self.fired_eintr += 1;
            return Err(io::Error::from(ErrorKind::Interrupted));
        }
        if let Some((at, k)) = self.plan.hard {
            if at == c {
                self.fired_hard = true;
                return Err(io::Error::new(HARD[k as usize % HARD.len()], "injected read fault"));
            }
        }
        let lim = if self.plan.chunks.is_empty() { usize::MAX } else { self.plan.chunks[c as usize % self.plan.chunks.len()].max(1) as usize };
        let n = buf.len().min(lim).min(self.data.len() - self.pos);
        if n < buf.len() && self.pos + n < self.data.len() {
            self.short += 1;
        }
        buf[..n].copy_from_slice(&self.data[self.pos..self.pos + n]);
        self.pos += n;
        Ok(n)
    }
}

fn draw_plan(r: &mut Rng, faults: bool, hard: bool) -> IoPlan {
    let mut p = IoPlan::default();
    if r.chance(2, 3) {
        let n = r.range(1, 4);
        for _ in 0..n {
            p.chunks.push(*r.pick(&[1u16, 1, 2, 3, 5, 7, 16, 64, 1000]));
        }
    }
    if faults && r.chance(1, 2) {
        let n = r.range(1, 3);
        for _ in 0..n {
            p.eintr.push(r.below(12) as u16);
        }
        p.eintr.sort_unstable();
        p.eintr.dedup();
    }
    if hard {
        p.hard = Some((r.below(10) as u16, r.below(4) as u8));
    }
    p
}

// ------------------------------------------------------------------------------------------------
// histories
// ------------------------------------------------------------------------------------------------
#[derive(Clone, Debug, Hash, PartialEq, Eq)]
pub enum HashSrc {
    /// hash generated from data with permissive options (o = option bits)
    Generated(DataDesc, u8),
    /// arbitrary binary form (made acceptable to this build's TryFrom by patching the length / checksum byte if needed)
    Raw(Vec<u8>),
}

#[derive(Clone, Debug, Hash, PartialEq, Eq)]
pub enum MFault {
    Truncate(u16),
    Flip(u16, u8),
    Subst(u16, u8),
    Append(Vec<u8>),
    DupPrefix(u16),
    /// insert one byte at a position (whitespace, NUL, extra digit, ... inside or around the payload)
    Insert(u16, u8),
    /// ASCII-lowercase the byte at a position (e.g. the "T" of the prefix)
    Lower(u16),
}

fn apply_medium(doc: &mut Vec<u8>, faults: &[MFault]) {
    for f in faults {
        match f {
            MFault::Truncate(n) => doc.truncate(*n as usize),
            MFault::Flip(p, b) => {
                if !doc.is_empty() {
                    let i = *p as usize % doc.len();
                    doc[i] ^= 1 << (b & 7);
                }
            }
            MFault::Subst(p, v) => {
                if !doc.is_empty() {
                    let i = *p as usize % doc.len();
                    doc[i] = *v;
                }
            }
            MFault::Append(v) => doc.extend_from_slice(v),
            MFault::DupPrefix(n) => {
                let n = (*n as usize).min(doc.len());
                let pre = doc[..n].to_vec();
                doc.splice(0..0, pre);
            }
            MFault::Insert(p, b) => {
                let i = *p as usize % (doc.len() + 1);
                doc.insert(i, *b);
            }
            MFault::Lower(p) => {
                if !doc.is_empty() {
                    let i = *p as usize % doc.len();
                    doc[i] = doc[i].to_ascii_lowercase();
                }
            }
        }
    }
}

fn make_hash<K: Kind>(src: &HashSrc) -> K::H {
    match src {
        HashSrc::Generated(d, o) => {
            let mut g = K::new_gen();
            g.update(&d.bytes());
            g.finalize_with_options(&options(*o | OPT_PERMISSIVE_F32)).expect("permissive options always succeed below the length limit")
        }
        HashSrc::Raw(raw) => {
            let size = <K::H as FuzzyHashType>::SIZE_IN_BYTES;
            let mut b = vec![0u8; size];
            for (i, x) in b.iter_mut().enumerate() {
                *x = raw.get(i).copied().unwrap_or((i as u8).wrapping_mul(37));
            }
            if let Ok(h) = <K::H as TryFrom<&[u8]>>::try_from(&b[..]) {
                return h;
            }
            // strict build: make the length code and (Short) checksum valid
            b[K::CKSUM] %= 170;
            if K::BUCKETS == 48 {
                b[0] %= 49;
            }
            <K::H as TryFrom<&[u8]>>::try_from(&b[..]).expect("patched bytes are acceptable")
        }
    }
}

fn draw_src(r: &mut Rng) -> HashSrc {
    if r.chance(1, 2) {
        let len = draw_small_len(r).min(2000);
        HashSrc::Generated(draw_data(r, len), if r.chance(1, 2) { OPT_PERMISSIVE_INT } else { OPT_PERMISSIVE_F32 })
    } else {
        let mut v = vec![0u8; 69];
        match r.below(20) {
            0 => {}                                        // the all-zero hash
            1 => v.iter_mut().for_each(|b| *b = 0xff),    // all ones
            2 => {
                let i = r.below(69) as usize;             // a single non-zero byte
                v[i] = 1 << r.below(8);
            }
            3 => {
                let b = r.next_u64() as u8;               // one byte value repeated
                v.iter_mut().for_each(|x| *x = b);
            }
            4 => {
                // binary forms that *look like* text: they start with the ASCII bytes of "T1" / "t1" / hex digits
                r.fill(&mut v);
                let pre: &[u8] = *r.pick(&[&b"T1"[..], &b"t1"[..], &b"T1A"[..], &b"00"[..], &b"\"T"[..]]);
                v[..pre.len()].copy_from_slice(pre);
                return HashSrc::Raw(v);
            }
            _ => r.fill(&mut v),
        }
        // bias the length code / checksum bytes towards the strict-parser boundaries
        if r.chance(1, 2) && v.iter().any(|&b| b != v[0]) {
            let i = r.below(4) as usize;
            v[i] = *r.pick(&[0u8, 48, 49, 168, 169, 170, 171, 255]);
        }
        HashSrc::Raw(v)
    }
}
fn src_json(s: &HashSrc) -> Value {
    match s {
        HashSrc::Generated(d, o) => json!({"generated": d.to_json(), "options": o}),
        HashSrc::Raw(v) => json!({"raw": hex(v)}),
    }
}
fn src_from(v: &Value) -> Result<HashSrc, String> {
    if let Some(r) = v.get("raw") {
        Ok(HashSrc::Raw(unhex(r.as_str().ok_or("raw")?)?))
    } else {
        Ok(HashSrc::Generated(DataDesc::from_json(&v["generated"])?, v["options"].as_u64().ok_or("options")? as u8))
    }
}
fn plan_json(p: &IoPlan) -> Value {
    json!({"chunks": p.chunks, "eintr": p.eintr, "hard": p.hard.map(|(a, k)| vec![a as u64, k as u64])})
}
fn plan_from(v: &Value) -> Result<IoPlan, String> {
    let arr = |k: &str| -> Result<Vec<u16>, String> {
        Ok(v[k].as_array().ok_or(k.to_string())?.iter().map(|x| x.as_u64().unwrap_or(0) as u16).collect())
    };
    let hard = match v["hard"].as_array() {
        Some(a) if a.len() == 2 => Some((a[0].as_u64().unwrap_or(0) as u16, a[1].as_u64().unwrap_or(0) as u8)),
        _ => None,
    };
    Ok(IoPlan { chunks: arr("chunks")?, eintr: arr("eintr")?, hard })
}
fn mf_json(m: &MFault) -> Value {
    match m {
        MFault::Truncate(n) => json!({"truncate": n}),
        MFault::Flip(p, b) => json!({"flip": [p, b]}),
        MFault::Subst(p, v) => json!({"subst": [p, v]}),
        MFault::Append(v) => json!({"append": hex(v)}),
        MFault::DupPrefix(n) => json!({"dup_prefix": n}),
        MFault::Insert(p, b) => json!({"insert": [p, b]}),
        MFault::Lower(p) => json!({"lower": p}),
    }
}
fn mf_from(v: &Value) -> Result<MFault, String> {
    let two = |x: &Value| -> Result<(u64, u64), String> {
        let a = x.as_array().ok_or("pair")?;
        Ok((a[0].as_u64().ok_or("p0")?, a[1].as_u64().ok_or("p1")?))
    };
    if let Some(n) = v.get("truncate") {
        Ok(MFault::Truncate(n.as_u64().ok_or("n")? as u16))
    } else if let Some(x) = v.get("flip") {
        let (a, b) = two(x)?;
        Ok(MFault::Flip(a as u16, b as u8))
    } else if let Some(x) = v.get("subst") {
        let (a, b) = two(x)?;
        Ok(MFault::Subst(a as u16, b as u8))
    } else if let Some(x) = v.get("append") {
        Ok(MFault::Append(unhex(x.as_str().ok_or("append")?)?))
    } else if let Some(n) = v.get("dup_prefix") {
        Ok(MFault::DupPrefix(n.as_u64().ok_or("n")? as u16))
    } else if let Some(x) = v.get("insert") {
        let (a, b) = two(x)?;
        Ok(MFault::Insert(a as u16, b as u8))
    } else if let Some(n) = v.get("lower") {
        Ok(MFault::Lower(n.as_u64().ok_or("n")? as u16))
    } else {
        Err("unknown medium fault".into())
    }
}

#[derive(Clone, Debug, Hash, PartialEq, Eq)]
pub struct Hist {
    pub variant: u8,
    /// 0 json, 1 cbor, 2 postcard
    pub fmt: u8,
    pub src: HashSrc,
    pub w: IoPlan,
    pub medium: Vec<MFault>,
    /// false: from_slice / from_bytes on the stored buffer, true: through the faulty reader
    pub via_reader: bool,
    pub r: IoPlan,
    pub sub: u8,
    /// 0: the document is the serialized hash.  > 0: a *foreign* document — another type carrying the same payload
    /// (array of numbers, text string in a compact format, integer, bool, null, option, tuple, map, ...) that is then
    /// deserialized as a hash: only "judged by the matching parser / never a panic" applies.
    pub foreign: u8,
}

pub struct C16;
pub const FOREIGN_KINDS: u8 = 15;
const FMT: [&str; 3] = ["json", "cbor", "postcard"];

fn expected_doc<K: Kind>(h: &K::H, fmt: u8) -> Vec<u8> {
    let mut bin = [0u8; 80];
    let n = h.store_into_bytes(&mut bin).expect("fits");
    match fmt {
        0 => format!("\"{}\"", h).into_bytes(),
        1 => {
            let mut v = if n < 24 { vec![0x40 + n as u8] } else { vec![0x58, n as u8] };
            v.extend_from_slice(&bin[..n]);
            v
        }
        _ => {
            let mut v = vec![n as u8]; // varint, n < 128
            v.extend_from_slice(&bin[..n]);
            v
        }
    }
}

fn de_slice<T: DeserializeOwned>(fmt: u8, doc: &[u8]) -> Result<T, String> {
    match fmt {
        0 => serde_json::from_slice::<T>(doc).map_err(|e| e.to_string()),
        1 => ciborium::from_reader::<T, _>(doc).map_err(|e| e.to_string()),
        _ => postcard::from_bytes::<T>(doc).map_err(|e| e.to_string()),
    }
}
fn de_reader<T: DeserializeOwned, R: Read>(fmt: u8, rd: R) -> Result<T, String> {
    match fmt {
        0 => serde_json::from_reader::<_, T>(rd).map_err(|e| e.to_string()),
        1 => ciborium::from_reader::<T, _>(rd).map_err(|e| e.to_string()),
        _ => {
            let mut scratch = [0u8; 256];
            postcard::from_io::<T, _>((rd, &mut scratch[..])).map(|x| x.0).map_err(|e| e.to_string())
        }
    }
}

/// Alternative legal encodings of one hash (text form for JSON, binary form for CBOR / postcard).
fn alt_encoding(fmt: u8, kind: u8, text: &str, bin: &[u8]) -> Option<Vec<u8>> {
    let mut o = Vec::new();
    match (fmt, kind) {
        (0, 13) => {
            // every character as a \uXXXX escape
            o.push(b'"');
            for c in text.chars() {
                o.extend_from_slice(format!("\\u{:04x}", c as u32).as_bytes());
            }
            o.push(b'"');
        }
        (0, 14) => {
            o.extend_from_slice(b" \n\t\"");
            o.extend_from_slice(text.as_bytes());
            o.extend_from_slice(b"\" \r\n");
        }
        (0, _) => {
            // only the first character escaped (upper-case hex digits in the escape)
            o.push(b'"');
            let mut cs = text.chars();
            if let Some(c) = cs.next() {
                o.extend_from_slice(format!("\\u{:04X}", c as u32).as_bytes());
            }
            o.extend_from_slice(cs.as_str().as_bytes());
            o.push(b'"');
        }
        (1, 13) => {
            // byte string with a two-byte length although one would do
            o.extend_from_slice(&[0x59, (bin.len() >> 8) as u8, bin.len() as u8]);
            o.extend_from_slice(bin);
        }
        (1, 14) => {
            // indefinite-length byte string in two chunks
            let (a, b) = bin.split_at(bin.len() / 2);
            o.push(0x5f);
            for c in [a, b] {
                o.extend_from_slice(&[0x58, c.len() as u8]);
                o.extend_from_slice(c);
            }
            o.push(0xff);
        }
        (1, _) => {
            // tag 64 (uint8 typed array) around the byte string
            o.extend_from_slice(&[0xd8, 0x40, 0x58, bin.len() as u8]);
            o.extend_from_slice(bin);
        }
        (_, 13) => {
            // length varint with a redundant continuation byte
            o.extend_from_slice(&[bin.len() as u8 | 0x80, 0x00]);
            o.extend_from_slice(bin);
        }
        _ => return None,
    }
    Some(o)
}

fn run_store<K: Kind>(h: &Hist, st: &mut Stats, fnv: &mut Fnv, states: &mut Vec<u64>) -> Option<Violation>
where
    K::H: Serialize + DeserializeOwned,
{
    let mk = |class: &str, detail: String| Some(Violation { class: class.to_string(), detail });
    let hash = make_hash::<K>(&h.src);
    let hash_s = render_h(&hash);
    // ---- store through the faulty writer (real format crate, real Serialize impl) ----
    let mut w = FaultyWriter { plan: &h.w, out: Vec::new(), calls: 0, fired_eintr: 0, fired_hard: false, short: 0 };
    fn put<T: Serialize, W: Write>(fmt: u8, w: &mut W, v: &T) -> Result<(), String> {
        match fmt {
            0 => serde_json::to_writer(w, v).map_err(|e| e.to_string()),
            1 => ciborium::into_writer(v, w).map_err(|e| e.to_string()),
            _ => postcard::to_io(v, w).map(|_| ()).map_err(|e| e.to_string()),
        }
    }
    let mut bin_form = [0u8; 80];
    let nbin = hash.store_into_bytes(&mut bin_form).expect("fits");
    let ser: Result<(), String> = match h.foreign {
        0 => put(h.fmt, &mut w, &hash),
        1 => put(h.fmt, &mut w, &bin_form[..nbin].to_vec()),            // sequence of numbers (binary form)
        2 => put(h.fmt, &mut w, &hash_s.as_bytes().to_vec()),             // sequence of numbers (text form)
        3 => put(h.fmt, &mut w, &hash_s),                                 // a text string (also in compact formats)
        4 => put(h.fmt, &mut w, &(nbin as u64)),
        5 => put(h.fmt, &mut w, &true),
        6 => put(h.fmt, &mut w, &()),
        7 => put(h.fmt, &mut w, &Some(hash)),
        8 => put(h.fmt, &mut w, &(hash,)),
        9 => put(h.fmt, &mut w, &std::collections::BTreeMap::from([("a".to_string(), hash_s.clone())])),
        10 => put(h.fmt, &mut w, &hash_s[2..].to_string()),               // prefix-less text
        11 => put(h.fmt, &mut w, &hash_s.to_ascii_lowercase()),
        12 => put(h.fmt, &mut w, &vec![hash, hash]),
        // 13..15: the *same value* as another, equally legal writer of the format would have encoded it
        k => match alt_encoding(h.fmt, k, &hash_s, &bin_form[..nbin]) {
            Some(raw) => w.write_all(&raw).map_err(|e| e.to_string()),
            None => put(h.fmt, &mut w, &hash),
        },
    };
    if h.foreign != 0 {
        st.hit("fault.foreign_document");
    }
    st.add("fault.write_eintr", w.fired_eintr);
    st.add("fault.short_write", w.short);
    if w.fired_hard {
        st.hit("fault.write_error");
        if ser.is_ok() {
            return mk("ser-swallowed-write-error", format!("{}: a hard write error was injected but serialisation returned Ok", FMT[h.fmt as usize]));
        }
        fnv.write(b"write-error");
        states.push(1 << 40 | (h.fmt as u64) << 8 | K::ID as u64);
        return None; // the run ends: nothing was stored
    }
    if let Err(e) = ser {
        return mk("ser-failed-without-fault", format!("{}: serialisation failed although no hard error fired: {e}", FMT[h.fmt as usize]));
    }
    let mut doc = w.out;
    let want = expected_doc::<K>(&hash, h.fmt);
    if h.foreign == 0 && doc != want {
        return mk("ser-not-canonical", format!("{} document is {} but the canonical encoding of {hash_s} is {}", FMT[h.fmt as usize], hex(&doc), hex(&want)));
    }
    // ---- the medium ----
    let pristine = doc.clone();
    apply_medium(&mut doc, &h.medium);
    let damaged = doc != pristine;
    for f in &h.medium {
        st.hit(match f {
            MFault::Truncate(_) => "fault.torn_tail",
            MFault::Flip(..) => "fault.bit_flip",
            MFault::Subst(..) => "fault.byte_substitution",
            MFault::Append(_) => "fault.garbage_appended",
            MFault::DupPrefix(_) => "fault.duplicated_prefix",
            MFault::Insert(..) => "fault.byte_inserted",
            MFault::Lower(_) => "fault.byte_lowercased",
        });
    }
    if damaged && doc.len() == pristine.len() && h.fmt != 0 && h.foreign == 0 {
        // which field did the damage land in (binary formats: [envelope][cksum][len][q][body])
        let env = pristine.len() - <K::H as FuzzyHashType>::SIZE_IN_BYTES;
        if let Some(i) = (0..doc.len()).find(|&i| doc[i] != pristine[i]) {
            st.hit(if i < env {
                "probe.damage_in_envelope"
            } else if i < env + K::CKSUM {
                "probe.damage_in_checksum"
            } else if i == env + K::CKSUM {
                "probe.damage_in_length_code"
            } else if i == env + K::CKSUM + 1 {
                "probe.damage_in_qratios"
            } else {
                "probe.damage_in_body"
            });
        }
    }
    // ---- read back (real format crate, recording layer, real Deserialize impl) ----
    reset_log();
    let mut rd = FaultyReader { plan: &h.r, data: &doc, pos: 0, calls: 0, fired_eintr: 0, fired_hard: false, short: 0 };
    let outer: Result<String, String> = if h.via_reader {
        de_reader::<Probe<K::H>, _>(h.fmt, &mut rd).map(|p| render_h(&p.0))
    } else {
        de_slice::<Probe<K::H>>(h.fmt, &doc).map(|p| render_h(&p.0))
    };
    st.add("fault.read_eintr", rd.fired_eintr);
    st.add("fault.short_read", rd.short);
    if rd.fired_hard {
        st.hit("fault.read_error");
    }
    let log = LOG.with(|l| l.borrow().clone());
    let inner = INNER.with(|l| l.borrow().clone());
    let hr = HR.with(|l| *l.borrow()).unwrap_or(h.fmt == 0);
    if let Some(s) = log.first() {
        st.hit(match s.kind {
            "str" => "probe.visit_str",
            "borrowed_str" => "probe.visit_borrowed_str",
            "string" => "probe.visit_string",
            "bytes" => "probe.visit_bytes",
            "borrowed_bytes" => "probe.visit_borrowed_bytes",
            "byte_buf" => "probe.visit_byte_buf",
            _ => "probe.visit_other",
        });
        if !hr && s.payload.len() == <K::H as FuzzyHashType>::SIZE_IN_BYTES {
            if s.payload[K::CKSUM] >= 170 {
                st.hit("probe.bytes_visitor_sees_length_code_ge_170");
            }
            if K::BUCKETS == 48 && s.payload[0] > 48 {
                st.hit("probe.bytes_visitor_sees_short_checksum_gt_48");
            }
        }
    }
    fnv.write(format!("{outer:?}").as_bytes());
    states.push((h.fmt as u64) << 32 | (K::ID as u64) << 24 | (damaged as u64) << 20 | (inner.as_ref().map(|r| r.is_ok() as u64 + 1).unwrap_or(0)) << 16 | (outer.is_ok() as u64) << 12 | (log.first().map(|s| s.kind.len() as u64).unwrap_or(0)));
    if let Some(v) = judge::<K>(hr, &inner, &log) {
        return Some(v);
    }
    // the same document once more through Deserialize::deserialize_in_place on an existing valid value
    {
        let n = <K::H as FuzzyHashType>::SIZE_IN_BYTES;
        let mut pb = vec![0x11u8; n];
        pb[K::CKSUM] = 0x10; // a valid length code; checksum 0x11 is valid for every variant
        PLACE.with(|p| *p.borrow_mut() = pb);
        reset_log();
        let outer2: Result<String, String> = de_slice::<ProbeInPlace<K::H>>(h.fmt, &doc).map(|p| render_h(&p.0));
        let log2 = LOG.with(|l| l.borrow().clone());
        let inner2 = INNER.with(|l| l.borrow().clone());
        let hr2 = HR.with(|l| *l.borrow()).unwrap_or(h.fmt == 0);
        st.hit("probe.deserialize_in_place");
        if let Some(v) = judge::<K>(hr2, &inner2, &log2) {
            return Some(Violation { class: format!("in-place-{}", v.class), detail: format!("deserialize_in_place: {}", v.detail) });
        }
        if let (Ok(o), Some(Ok(i))) = (&outer2, &inner2) {
            if o != i {
                return mk("de-wrong-value", format!("deserialize_in_place: format crate returned {o} but the place holds {i}"));
            }
        }
    }
    match (&outer, &inner) {
        (Ok(o), Some(Ok(i))) if o != i => return mk("de-wrong-value", format!("format crate returned {o} but fast-tlsh's Deserialize produced {i}")),
        (Ok(o), Some(Err(_))) | (Ok(o), None) => return mk("de-accepts-what-parser-rejects", format!("format crate returned Ok({o}) although fast-tlsh's Deserialize did not return Ok")),
        _ => {}
    }
    if !damaged && !rd.fired_hard && rd.fired_eintr > 0 && log.is_empty() && outer.is_err() {
        // The format crate gave up on a transient read interruption before fast-tlsh's visitor was
        // reached (postcard's IOReader::pop does a bare read()).  Not fast-tlsh's behaviour: tolerated,
        // only in runs where an EINTR actually fired, and counted.
        st.hit("probe.format_crate_failed_on_read_eintr");
    } else if !damaged && !rd.fired_hard {
        // storage and transport were honest: the round trip must be lossless
        if h.foreign != 0 {
            return None; // a foreign document: only the event-based judgement above applies
        }
        match &outer {
            Ok(o) if *o == hash_s => {}
            Ok(o) => return mk("roundtrip-lossy", format!("stored {hash_s}, read back {o}")),
            Err(e) => return mk("roundtrip-failed", format!("stored {hash_s} in {}, undamaged, reading back failed: {e}", FMT[h.fmt as usize])),
        }
        st.hit("probe.lossless_roundtrip");
    }
    None
}

impl Scenario for C16 {
    type Hist = Hist;
    fn name(&self) -> &'static str {
        "c16"
    }
    fn property(&self) -> &'static str {
        "C16"
    }
    fn rule(&self) -> &'static str {
        "history = (variant, format, hash source, writer plan, medium faults, read path, reader plan); distinct = distinct history digests; \
         non-trivial = the document was stored and read back and, outside the fault-free sub-batch, at least one injected fault fired (a foreign, wrong-typed document counts as a fault)"
    }
    fn generate(&self, r: &mut Rng, index: u64) -> Hist {
        // sub 0: fault-free; 1: I/O faults only (short, EINTR); 2: medium damage; 3: hard I/O errors; 4: swarm
        let sub = (index % 5) as u8;
        let variant = r.below(5) as u8;
        let fmt = r.below(3) as u8;
        let src = draw_src(r);
        let io = matches!(sub, 1 | 4);
        let whard = sub == 3 && r.chance(1, 2);
        let rhard = (sub == 3 || sub == 4) && r.chance(1, 2);
        let w = if sub == 0 { IoPlan::default() } else { draw_plan(r, io, whard) };
        let rp = if sub == 0 { IoPlan::default() } else { draw_plan(r, io, rhard) };
        let mut medium = Vec::new();
        if matches!(sub, 2 | 4) {
            let n = if r.chance(3, 4) { 1 } else { r.range(2, 3) };
            for _ in 0..n {
                medium.push(match r.below(10) {
                    0..=3 => MFault::Flip(r.below(160) as u16, r.below(8) as u8),
                    4..=5 => MFault::Subst(r.below(160) as u16, *r.pick(&[0u8, 0x30, 0x31, 0xa9, 0xaa, 0xff, b'g', b'"', b'T', 0x58, 0x40])),
                    6..=7 => MFault::Truncate(r.below(150) as u16),
                    8 => {
                        if r.chance(1, 2) {
                            let mut g = vec![0u8; r.range(1, 4) as usize];
                            if r.chance(2, 3) {
                                r.fill(&mut g); // else: zero bytes appended
                            }
                            MFault::Append(g)
                        } else {
                            // positions biased to the edges of the payload (inside the JSON quotes / right after the envelope)
                            let pos = *r.pick(&[0u16, 1, 2, 3, 4]) + if r.chance(1, 2) { 0 } else { 65535 - 4 };
                            MFault::Insert(pos, *r.pick(&[b' ', b'\n', 0u8, b'0', b'T', b'\t']))
                        }
                    }
                    _ => {
                        if r.chance(1, 2) {
                            MFault::DupPrefix(r.range(1, 4) as u16)
                        } else {
                            MFault::Lower(r.below(4) as u16)
                        }
                    }
                });
            }
        }
        let foreign = if r.chance(1, 6) { r.range(1, FOREIGN_KINDS as u64) as u8 } else { 0 };
        Hist { variant, fmt, src, w, medium, via_reader: r.chance(1, 2), r: rp, sub, foreign }
    }
    fn execute(&self, h: &Hist, st: &mut Stats) -> Outcome {
        let mut fnv = Fnv::new();
        let mut states = Vec::new();
        st.hit("runs");
        let res = guarded(|| with_kind!(h.variant, K => run_store::<K>(h, st, &mut fnv, &mut states)));
        let violation = match res {
            Ok(v) => v,
            Err(p) => Some(Violation { class: format!("panic:{}", panic_class(&p)), detail: format!("panic while (de)serializing: {p}") }),
        };
        let faulted = !h.medium.is_empty() || !h.w.eintr.is_empty() || !h.r.eintr.is_empty() || h.w.hard.is_some() || h.r.hard.is_some() || !h.w.chunks.is_empty() || !h.r.chunks.is_empty();
        Outcome { violation, digest: fnv.finish(), nontrivial: h.sub == 0 || faulted || h.foreign != 0, states }
    }
    fn shrink(&self, h: &Hist) -> Vec<Hist> {
        let mut out = Vec::new();
        for i in 0..h.medium.len() {
            let mut c = h.clone();
            c.medium.remove(i);
            out.push(c);
        }
        if h.w != IoPlan::default() {
            let mut c = h.clone();
            c.w = IoPlan::default();
            out.push(c);
        }
        if h.r != IoPlan::default() {
            let mut c = h.clone();
            c.r = IoPlan::default();
            out.push(c);
        }
        if h.via_reader {
            let mut c = h.clone();
            c.via_reader = false;
            out.push(c);
        }
        match &h.src {
            HashSrc::Generated(d, o) => {
                for nd in d.shrink() {
                    let mut c = h.clone();
                    c.src = HashSrc::Generated(nd, *o);
                    out.push(c);
                }
                let mut c = h.clone();
                c.src = HashSrc::Raw(vec![0; 69]);
                out.push(c);
            }
            HashSrc::Raw(v) => {
                if v.iter().any(|&b| b != 0) {
                    let mut c = h.clone();
                    c.src = HashSrc::Raw(vec![0; 69]);
                    out.push(c);
                    for i in 0..v.len() {
                        if v[i] != 0 {
                            let mut c = h.clone();
                            let mut nv = v.clone();
                            nv[i] = 0;
                            c.src = HashSrc::Raw(nv);
                            out.push(c);
                        }
                    }
                }
            }
        }
        if h.variant != 1 {
            let mut c = h.clone();
            c.variant = 1;
            out.push(c);
        }
        out
    }
    fn to_json(&self, h: &Hist) -> Value {
        json!({"variant": VARIANT_NAMES[h.variant as usize], "variant_id": h.variant, "format": FMT[h.fmt as usize], "fmt": h.fmt,
               "hash": src_json(&h.src), "writer": plan_json(&h.w), "medium": h.medium.iter().map(mf_json).collect::<Vec<_>>(),
               "via_reader": h.via_reader, "reader": plan_json(&h.r), "sub": h.sub, "foreign": h.foreign,
               "foreign_legend": "0 hash itself, 1 seq(binary), 2 seq(text), 3 text string, 4 u64, 5 bool, 6 unit, 7 Some(hash), 8 (hash,), 9 map, 10 prefix-less text, 11 lower-case text, 12 [hash, hash], 13-15 the same value in another legal encoding (JSON escapes / whitespace; CBOR long length, indefinite-length chunks, tag 64; postcard redundant varint byte)"})
    }
    fn from_json(&self, v: &Value) -> Result<Hist, String> {
        Ok(Hist {
            variant: v["variant_id"].as_u64().ok_or("variant_id")? as u8,
            fmt: v["fmt"].as_u64().ok_or("fmt")? as u8,
            src: src_from(&v["hash"])?,
            w: plan_from(&v["writer"])?,
            medium: v["medium"].as_array().ok_or("medium")?.iter().map(mf_from).collect::<Result<_, _>>()?,
            via_reader: v["via_reader"].as_bool().ok_or("via_reader")?,
            r: plan_from(&v["reader"])?,
            sub: v["sub"].as_u64().unwrap_or(4) as u8,
            foreign: v["foreign"].as_u64().unwrap_or(0) as u8,
        })
    }
}

// ------------------------------------------------------------------------------------------------
// Byzantine (de)serializer
// ------------------------------------------------------------------------------------------------
pub const MOCK_EVENTS: [&str; 27] = [
    "str", "borrowed_str", "string", "bytes", "borrowed_bytes", "byte_buf", "u8", "u16", "u32", "u64", "u128", "i8", "i16", "i32", "i64",
    "i128", "f32", "f64", "bool", "char", "unit", "none", "some", "newtype", "seq", "map", "enum",
];

#[derive(Clone, Debug, Hash, PartialEq, Eq)]
pub struct MockHist {
    pub variant: u8,
    pub hr: bool,
    /// index into MOCK_EVENTS
    pub event: u8,
    pub src: HashSrc,
    /// payload form: 0 text with T1, 1 text without prefix, 2 binary
    pub form: u8,
    pub lower: bool,
    pub medium: Vec<MFault>,
    /// for "some"/"newtype": the event of the nested deserializer
    pub nested: u8,
}

#[derive(Debug)]
struct MockErr(String);
impl std::fmt::Display for MockErr {
    fn fmt(&self, f: &mut std::fmt::Formatter<'_>) -> std::fmt::Result {
        f.write_str(&self.0)
    }
}
impl std::error::Error for MockErr {}
impl serde::de::Error for MockErr {
    fn custom<T: std::fmt::Display>(m: T) -> Self {
        MockErr(m.to_string())
    }
}
impl serde::ser::Error for MockErr {
    fn custom<T: std::fmt::Display>(m: T) -> Self {
        MockErr(m.to_string())
    }
}

struct MockDe<'a> {
    hr: bool,
    event: u8,
    nested: u8,
    payload: &'a [u8],
}
struct ByteSeq<'a>(&'a [u8], usize);
impl<'de> SeqAccess<'de> for ByteSeq<'_> {
    type Error = MockErr;
    fn next_element_seed<T: serde::de::DeserializeSeed<'de>>(&mut self, seed: T) -> Result<Option<T::Value>, MockErr> {
        if self.1 >= self.0.len() {
            return Ok(None);
        }
        let b = self.0[self.1];
        self.1 += 1;
        seed.deserialize(serde::de::value::U8Deserializer::<MockErr>::new(b)).map(Some)
    }
}
struct EmptyMap;
impl<'de> MapAccess<'de> for EmptyMap {
    type Error = MockErr;
    fn next_key_seed<K: serde::de::DeserializeSeed<'de>>(&mut self, _s: K) -> Result<Option<K::Value>, MockErr> {
        Ok(None)
    }
    fn next_value_seed<V: serde::de::DeserializeSeed<'de>>(&mut self, _s: V) -> Result<V::Value, MockErr> {
        Err(MockErr("no value".into()))
    }
}
impl<'de> MockDe<'de> {
    fn answer<V: Visitor<'de>>(self, v: V) -> Result<V::Value, MockErr> {
        let p = self.payload;
        let text = || String::from_utf8_lossy(p).into_owned();
        let num = || p.iter().take(8).fold(0u64, |a, &b| a << 8 | b as u64);
        match MOCK_EVENTS[self.event as usize % MOCK_EVENTS.len()] {
            "str" => v.visit_str(&text()),
            "borrowed_str" => match std::str::from_utf8(p) {
                Ok(s) => v.visit_borrowed_str(s),
                Err(_) => v.visit_str(&text()),
            },
            "string" => v.visit_string(text()),
            "bytes" => v.visit_bytes(&p.to_vec()),
            "borrowed_bytes" => v.visit_borrowed_bytes(p),
            "byte_buf" => v.visit_byte_buf(p.to_vec()),
            "u8" => v.visit_u8(num() as u8),
            "u16" => v.visit_u16(num() as u16),
            "u32" => v.visit_u32(num() as u32),
            "u64" => v.visit_u64(num()),
            "u128" => v.visit_u128((num() as u128) << 64 | num() as u128),
            "i8" => v.visit_i8(num() as i8),
            "i16" => v.visit_i16(num() as i16),
            "i32" => v.visit_i32(num() as i32),
            "i64" => v.visit_i64(num() as i64),
            "i128" => v.visit_i128(-(num() as i128)),
            "f32" => v.visit_f32(num() as f32),
            "f64" => v.visit_f64(num() as f64),
            "bool" => v.visit_bool(num() & 1 == 1),
            "char" => v.visit_char(p.first().map(|&b| b as char).unwrap_or('T')),
            "unit" => v.visit_unit(),
            "none" => v.visit_none(),
            "some" => v.visit_some(MockDe { hr: self.hr, event: self.nested, nested: 0, payload: p }),
            "newtype" => v.visit_newtype_struct(MockDe { hr: self.hr, event: self.nested, nested: 3, payload: p }),
            "seq" => v.visit_seq(ByteSeq(p, 0)),
            "map" => v.visit_map(EmptyMap),
            _ => v.visit_enum(serde::de::value::StrDeserializer::<MockErr>::new("T1")),
        }
    }
}
macro_rules! mock_de {
    ($($m:ident),*) => { $( fn $m<V: Visitor<'de>>(self, v: V) -> Result<V::Value, MockErr> { self.answer(v) } )* };
}
impl<'de> Deserializer<'de> for MockDe<'de> {
    type Error = MockErr;
    fn is_human_readable(&self) -> bool {
        self.hr
    }
    mock_de!(
        deserialize_any, deserialize_bool, deserialize_i8, deserialize_i16, deserialize_i32, deserialize_i64, deserialize_i128,
        deserialize_u8, deserialize_u16, deserialize_u32, deserialize_u64, deserialize_u128, deserialize_f32, deserialize_f64,
        deserialize_char, deserialize_str, deserialize_string, deserialize_bytes, deserialize_byte_buf, deserialize_option,
        deserialize_unit, deserialize_seq, deserialize_map, deserialize_identifier, deserialize_ignored_any
    );
    fn deserialize_unit_struct<V: Visitor<'de>>(self, _: &'static str, v: V) -> Result<V::Value, MockErr> {
        self.answer(v)
    }
    fn deserialize_newtype_struct<V: Visitor<'de>>(self, _: &'static str, v: V) -> Result<V::Value, MockErr> {
        self.answer(v)
    }
    fn deserialize_tuple<V: Visitor<'de>>(self, _: usize, v: V) -> Result<V::Value, MockErr> {
        self.answer(v)
    }
    fn deserialize_tuple_struct<V: Visitor<'de>>(self, _: &'static str, _: usize, v: V) -> Result<V::Value, MockErr> {
        self.answer(v)
    }
    fn deserialize_struct<V: Visitor<'de>>(self, _: &'static str, _: &'static [&'static str], v: V) -> Result<V::Value, MockErr> {
        self.answer(v)
    }
    fn deserialize_enum<V: Visitor<'de>>(self, _: &'static str, _: &'static [&'static str], v: V) -> Result<V::Value, MockErr> {
        self.answer(v)
    }
}

/// Records what `Serialize` emits.
struct MockSer {
    hr: bool,
}
#[derive(Debug, PartialEq)]
enum Emitted {
    Str(String),
    Bytes(Vec<u8>),
    Other(&'static str),
}
macro_rules! mock_ser_scalar {
    ($($m:ident : $t:ty),*) => { $( fn $m(self, _v: $t) -> Result<Emitted, MockErr> { Ok(Emitted::Other(stringify!($m))) } )* };
}
impl Serializer for MockSer {
    type Ok = Emitted;
    type Error = MockErr;
    type SerializeSeq = serde::ser::Impossible<Emitted, MockErr>;
    type SerializeTuple = serde::ser::Impossible<Emitted, MockErr>;
    type SerializeTupleStruct = serde::ser::Impossible<Emitted, MockErr>;
    type SerializeTupleVariant = serde::ser::Impossible<Emitted, MockErr>;
    type SerializeMap = serde::ser::Impossible<Emitted, MockErr>;
    type SerializeStruct = serde::ser::Impossible<Emitted, MockErr>;
    type SerializeStructVariant = serde::ser::Impossible<Emitted, MockErr>;
    fn is_human_readable(&self) -> bool {
        self.hr
    }
    mock_ser_scalar!(serialize_bool: bool, serialize_i8: i8, serialize_i16: i16, serialize_i32: i32, serialize_i64: i64, serialize_u8: u8,
        serialize_u16: u16, serialize_u32: u32, serialize_u64: u64, serialize_f32: f32, serialize_f64: f64, serialize_char: char);
    fn serialize_str(self, v: &str) -> Result<Emitted, MockErr> {
        Ok(Emitted::Str(v.to_string()))
    }
    fn serialize_bytes(self, v: &[u8]) -> Result<Emitted, MockErr> {
        Ok(Emitted::Bytes(v.to_vec()))
    }
    fn serialize_none(self) -> Result<Emitted, MockErr> {
        Ok(Emitted::Other("none"))
    }
    fn serialize_some<T: ?Sized + Serialize>(self, _: &T) -> Result<Emitted, MockErr> {
        Ok(Emitted::Other("some"))
    }
    fn serialize_unit(self) -> Result<Emitted, MockErr> {
        Ok(Emitted::Other("unit"))
    }
    fn serialize_unit_struct(self, _: &'static str) -> Result<Emitted, MockErr> {
        Ok(Emitted::Other("unit_struct"))
    }
    fn serialize_unit_variant(self, _: &'static str, _: u32, _: &'static str) -> Result<Emitted, MockErr> {
        Ok(Emitted::Other("unit_variant"))
    }
    fn serialize_newtype_struct<T: ?Sized + Serialize>(self, _: &'static str, _: &T) -> Result<Emitted, MockErr> {
        Ok(Emitted::Other("newtype_struct"))
    }
    fn serialize_newtype_variant<T: ?Sized + Serialize>(self, _: &'static str, _: u32, _: &'static str, _: &T) -> Result<Emitted, MockErr> {
        Ok(Emitted::Other("newtype_variant"))
    }
    fn serialize_seq(self, _: Option<usize>) -> Result<Self::SerializeSeq, MockErr> {
        Err(MockErr("seq".into()))
    }
    fn serialize_tuple(self, _: usize) -> Result<Self::SerializeTuple, MockErr> {
        Err(MockErr("tuple".into()))
    }
    fn serialize_tuple_struct(self, _: &'static str, _: usize) -> Result<Self::SerializeTupleStruct, MockErr> {
        Err(MockErr("tuple_struct".into()))
    }
    fn serialize_tuple_variant(self, _: &'static str, _: u32, _: &'static str, _: usize) -> Result<Self::SerializeTupleVariant, MockErr> {
        Err(MockErr("tuple_variant".into()))
    }
    fn serialize_map(self, _: Option<usize>) -> Result<Self::SerializeMap, MockErr> {
        Err(MockErr("map".into()))
    }
    fn serialize_struct(self, _: &'static str, _: usize) -> Result<Self::SerializeStruct, MockErr> {
        Err(MockErr("struct".into()))
    }
    fn serialize_struct_variant(self, _: &'static str, _: u32, _: &'static str, _: usize) -> Result<Self::SerializeStructVariant, MockErr> {
        Err(MockErr("struct_variant".into()))
    }
}

pub struct C16Mock;
const FORMS: [&str; 3] = ["text+T1", "text", "binary"];

fn run_mock<K: Kind>(h: &MockHist, st: &mut Stats, fnv: &mut Fnv, states: &mut Vec<u64>) -> Option<Violation>
where
    K::H: Serialize + DeserializeOwned,
{
    let mk = |class: &str, detail: String| Some(Violation { class: class.to_string(), detail });
    let hash = make_hash::<K>(&h.src);
    // ---- Serialize against the recording serializer, both modes ----
    let mut bin = [0u8; 80];
    let n = hash.store_into_bytes(&mut bin).expect("fits");
    match hash.serialize(MockSer { hr: true }) {
        Ok(Emitted::Str(s)) if s == hash.to_string() => {}
        other => return mk("ser-not-canonical", format!("human-readable: emitted {other:?}, want Str({hash})")),
    }
    match hash.serialize(MockSer { hr: false }) {
        Ok(Emitted::Bytes(b)) if b == bin[..n] => {}
        other => return mk("ser-not-canonical", format!("compact: emitted {other:?}, want Bytes({})", hex(&bin[..n]))),
    }
    // ---- payload ----
    let mut payload: Vec<u8> = match h.form {
        0 => hash.to_string().into_bytes(),
        1 => hash.to_string().into_bytes()[2..].to_vec(),
        _ => bin[..n].to_vec(),
    };
    if h.lower && h.form < 2 {
        let skip = if h.form == 0 { 2 } else { 0 };
        for b in payload.iter_mut().skip(skip) {
            *b = b.to_ascii_lowercase();
        }
    }
    apply_medium(&mut payload, &h.medium);
    // ---- Deserialize against the scripted deserializer ----
    reset_log();
    let d = MockDe { hr: h.hr, event: h.event, nested: h.nested, payload: &payload };
    let got: Result<Probe<K::H>, MockErr> = Probe::<K::H>::deserialize(d);
    let log = LOG.with(|l| l.borrow().clone());
    let inner = INNER.with(|l| l.borrow().clone());
    let evname = MOCK_EVENTS[h.event as usize % MOCK_EVENTS.len()];
    st.hit(match evname {
        "str" | "borrowed_str" | "string" => "probe.mock_str_like",
        "bytes" | "borrowed_bytes" | "byte_buf" => "probe.mock_bytes_like",
        "some" | "newtype" => "probe.mock_wrapper",
        "seq" | "map" | "enum" => "probe.mock_compound",
        _ => "probe.mock_scalar",
    });
    if inner.as_ref().map(|r| r.is_ok()).unwrap_or(false) {
        st.hit("probe.mock_accepted");
    }
    fnv.write(format!("{:?}", got.as_ref().map(|p| render_h(&p.0)).map_err(|e| e.0.clone())).as_bytes());
    states.push((h.hr as u64) << 40 | (h.event as u64) << 32 | (K::ID as u64) << 24 | (h.form as u64) << 20 | (inner.as_ref().map(|r| r.is_ok() as u64 + 1).unwrap_or(0)) << 16 | (payload.len() as u64 & 0xff));
    if let Some(v) = judge::<K>(h.hr, &inner, &log) {
        return Some(v);
    }
    // the same event through deserialize_in_place
    let nn = <K::H as FuzzyHashType>::SIZE_IN_BYTES;
    let mut pb = vec![0x11u8; nn];
    pb[K::CKSUM] = 0x10;
    PLACE.with(|p| *p.borrow_mut() = pb);
    reset_log();
    let d = MockDe { hr: h.hr, event: h.event, nested: h.nested, payload: &payload };
    let _ = ProbeInPlace::<K::H>::deserialize(d);
    let log = LOG.with(|l| l.borrow().clone());
    let inner = INNER.with(|l| l.borrow().clone());
    judge::<K>(h.hr, &inner, &log).map(|v| Violation { class: format!("in-place-{}", v.class), detail: format!("deserialize_in_place: {}", v.detail) })
}

impl Scenario for C16Mock {
    type Hist = MockHist;
    fn name(&self) -> &'static str {
        "c16mock"
    }
    fn property(&self) -> &'static str {
        "C16"
    }
    fn rule(&self) -> &'static str {
        "history = (variant, is_human_readable, visitor event the scripted deserializer answers with, payload = text/binary form of a hash + mutations); \
         distinct = distinct history digests; non-trivial = every run (each pairs one event with one payload); states = (mode, event, variant, form, accepted?, payload length)"
    }
    fn generate(&self, r: &mut Rng, _index: u64) -> MockHist {
        let mut medium = Vec::new();
        if r.chance(1, 2) {
            let n = r.range(1, 2);
            for _ in 0..n {
                medium.push(match r.below(8) {
                    0..=2 => MFault::Flip(r.below(160) as u16, r.below(8) as u8),
                    3..=4 => MFault::Subst(r.below(160) as u16, *r.pick(&[0u8, 0x30, 0x31, 0xa9, 0xaa, 0xff, b'g', b'G', b't', b'@', 0x80])),
                    5 => MFault::Truncate(r.below(150) as u16),
                    6 => {
                        if r.chance(1, 2) {
                            MFault::Append(vec![*r.pick(&[b'0', b' ', 0u8, b'\n']); r.range(1, 3) as usize])
                        } else {
                            MFault::Insert(*r.pick(&[0u16, 0, 1, 2, 65535, 65534]), *r.pick(&[b' ', b'\n', 0u8, b'0', b'T', b'\t']))
                        }
                    }
                    _ => {
                        if r.chance(1, 2) {
                            MFault::DupPrefix(r.range(1, 2) as u16)
                        } else {
                            MFault::Lower(r.below(3) as u16)
                        }
                    }
                });
            }
        }
        MockHist {
            variant: r.below(5) as u8,
            hr: r.chance(1, 2),
            event: if r.chance(2, 3) { r.below(6) as u8 } else { r.below(MOCK_EVENTS.len() as u64) as u8 },
            src: draw_src(r),
            form: r.below(3) as u8,
            lower: r.chance(1, 4),
            medium,
            nested: r.below(6) as u8,
        }
    }
    fn execute(&self, h: &MockHist, st: &mut Stats) -> Outcome {
        let mut fnv = Fnv::new();
        let mut states = Vec::new();
        st.hit("runs");
        let res = guarded(|| with_kind!(h.variant, K => run_mock::<K>(h, st, &mut fnv, &mut states)));
        let violation = match res {
            Ok(v) => v,
            Err(p) => Some(Violation { class: format!("panic:{}", panic_class(&p)), detail: format!("panic while (de)serializing with the scripted (de)serializer: {p}") }),
        };
        Outcome { violation, digest: fnv.finish(), nontrivial: true, states }
    }
    fn shrink(&self, h: &MockHist) -> Vec<MockHist> {
        let mut out = Vec::new();
        for i in 0..h.medium.len() {
            let mut c = h.clone();
            c.medium.remove(i);
            out.push(c);
        }
        if h.lower {
            let mut c = h.clone();
            c.lower = false;
            out.push(c);
        }
        if let HashSrc::Raw(v) = &h.src {
            if v.iter().any(|&b| b != 0) {
                let mut c = h.clone();
                c.src = HashSrc::Raw(vec![0; 69]);
                out.push(c);
                for i in 0..v.len().min(8) {
                    if v[i] != 0 {
                        let mut c = h.clone();
                        let mut nv = v.clone();
                        nv[i] = 0;
                        c.src = HashSrc::Raw(nv);
                        out.push(c);
                    }
                }
            }
        } else {
            let mut c = h.clone();
            c.src = HashSrc::Raw(vec![0; 69]);
            out.push(c);
        }
        if h.variant != 1 {
            let mut c = h.clone();
            c.variant = 1;
            out.push(c);
        }
        out
    }
    fn to_json(&self, h: &MockHist) -> Value {
        json!({"variant": VARIANT_NAMES[h.variant as usize], "variant_id": h.variant, "is_human_readable": h.hr,
               "event": MOCK_EVENTS[h.event as usize % MOCK_EVENTS.len()], "event_id": h.event, "hash": src_json(&h.src),
               "form": FORMS[h.form as usize % 3], "form_id": h.form, "lower": h.lower,
               "mutations": h.medium.iter().map(mf_json).collect::<Vec<_>>(), "nested_event_id": h.nested})
    }
    fn from_json(&self, v: &Value) -> Result<MockHist, String> {
        Ok(MockHist {
            variant: v["variant_id"].as_u64().ok_or("variant_id")? as u8,
            hr: v["is_human_readable"].as_bool().ok_or("hr")?,
            event: v["event_id"].as_u64().ok_or("event_id")? as u8,
            src: src_from(&v["hash"])?,
            form: v["form_id"].as_u64().ok_or("form_id")? as u8,
            lower: v["lower"].as_bool().ok_or("lower")?,
            medium: v["mutations"].as_array().ok_or("mutations")?.iter().map(mf_from).collect::<Result<_, _>>()?,
            nested: v["nested_event_id"].as_u64().unwrap_or(0) as u8,
        })
    }
}
