//! C07 — results must not depend on SIMD backend / simulated CPU / build configuration / first caller.
//!
//! Scenario "c07cpu" (hooked build): the same seeded op sequence is executed on every simulated CPU
//! {AVX2, SSE4.1+SSSE3, SSE2, none}; "booting" (new dispatch epoch) in between makes the first call
//! of each world initialise the dispatch cells again.  All transcripts must equal the mask-`none`
//! transcript (naive aggregation, pseudo-SIMD distance).
//! `transcript` (any build): prints the transcript of a seeded op sequence for the build matrix (C07d).

use crate::framework::{guarded, panic_class, Outcome, Scenario, Stats, Violation};
use crate::prng::{digest_of, mix, tag_of, Fnv, Rng};
use crate::workload::{cells_of, draw_op, draw_op_with, exec_op, op_from, op_json, shrink_op, WOp};
use serde_json::{json, Value};

#[derive(Clone, Debug, Hash, PartialEq, Eq)]
pub struct Hist {
    pub ops: Vec<WOp>,
}

pub fn draw_ops(r: &mut Rng, n: usize) -> Vec<WOp> {
    (0..n).map(|_| draw_op(r)).collect()
}

/// The transcript used by the build matrix: ops come from (seed, i) only.
pub fn transcript(seed: u64, count: u64) -> (Vec<String>, u64) {
    let mut lines = Vec::with_capacity(count as usize);
    let mut f = Fnv::new();
    for i in 0..count {
        let mut r = Rng::new(mix(seed, tag_of("c07transcript"), i));
        let op = draw_op_with(&mut r, false);
        let line = match guarded(|| exec_op(&op)) {
            Ok(s) => s,
            Err(p) => format!("PANIC {}", panic_class(&p)),
        };
        f.write(line.as_bytes());
        f.write(b"\n");
        lines.push(line);
    }
    (lines, f.finish())
}
pub fn transcript_op_json(seed: u64, i: u64) -> Value {
    let mut r = Rng::new(mix(seed, tag_of("c07transcript"), i));
    op_json(&draw_op_with(&mut r, false))
}

#[cfg(feature = "hooks")]
mod cpu {
    use super::*;
    use std::sync::atomic::{AtomicU64, Ordering};
    use std::sync::Mutex;
    use tlsh::verif;

    /// the CPU mask and the dispatch epoch are process-global: one world at a time
    static WORLD: Mutex<()> = Mutex::new(());
    static Q_AVX2: AtomicU64 = AtomicU64::new(0);
    static Q_SSE41: AtomicU64 = AtomicU64::new(0);
    static Q_SSSE3: AtomicU64 = AtomicU64::new(0);
    static Q_SSE2: AtomicU64 = AtomicU64::new(0);
    static INITS: AtomicU64 = AtomicU64::new(0);

    fn point(name: &'static str) {
        match name {
            "avx2" => Q_AVX2.fetch_add(1, Ordering::Relaxed),
            "sse4.1" => Q_SSE41.fetch_add(1, Ordering::Relaxed),
            "ssse3" => Q_SSSE3.fetch_add(1, Ordering::Relaxed),
            "sse2" => Q_SSE2.fetch_add(1, Ordering::Relaxed),
            "once.init" => INITS.fetch_add(1, Ordering::Relaxed),
            _ => 0,
        };
    }

    pub const MASKS: [(u32, &str); 5] = [
        (0, "none"),
        (verif::CPU_SSE2, "sse2"),
        (verif::CPU_SSE2 | verif::CPU_SSSE3 | verif::CPU_SSE4_1, "sse4.1+ssse3"),
        (verif::CPU_ALL, "avx2"),
        // a generation between the tiers: the aggregation takes its SSSE3 kernel, the distance falls back to SSE2
        (verif::CPU_SSE2 | verif::CPU_SSSE3, "ssse3-without-sse4.1"),
    ];

    pub fn run(h: &Hist, st: &mut Stats, fnv: &mut Fnv, states: &mut Vec<u64>) -> Option<Violation> {
        let _g = WORLD.lock().unwrap_or_else(|e| e.into_inner());
        verif::set_sim_point(Some(point));
        let host = [
            true,
            std::arch::is_x86_feature_detected!("sse2"),
            std::arch::is_x86_feature_detected!("sse4.1") && std::arch::is_x86_feature_detected!("ssse3"),
            std::arch::is_x86_feature_detected!("avx2"),
            std::arch::is_x86_feature_detected!("ssse3"),
        ];
        let mut reference: Option<Vec<String>> = None;
        let mut result = None;
        let cells = h.ops.iter().fold(0u8, |a, o| a | cells_of(o));
        for (mi, (mask, name)) in MASKS.iter().enumerate() {
            if !host[mi] {
                st.hit("probe.cpu_tier_not_on_host");
                continue;
            }
            verif::boot();
            verif::set_cpu_mask(*mask);
            st.hit(match mi {
                0 => "fault.reboot_on_cpu_without_simd",
                1 => "fault.reboot_on_cpu_sse2_only",
                2 => "fault.reboot_on_cpu_sse4.1_ssse3_no_avx2",
                3 => "fault.reboot_on_cpu_avx2",
                _ => "fault.reboot_on_cpu_ssse3_without_sse4.1",
            });
            let before = INITS.load(Ordering::Relaxed);
            let mut tr = Vec::with_capacity(h.ops.len());
            for op in &h.ops {
                tr.push(match guarded(|| exec_op(op)) {
                    Ok(s) => s,
                    Err(p) => format!("PANIC {}", panic_class(&p)),
                });
            }
            let inits = INITS.load(Ordering::Relaxed) - before;
            st.add(
                match mi {
                    0 => "probe.dispatch_inits.cpu_none",
                    1 => "probe.dispatch_inits.cpu_sse2",
                    2 => "probe.dispatch_inits.cpu_sse4.1+ssse3",
                    3 => "probe.dispatch_inits.cpu_avx2",
                    _ => "probe.dispatch_inits.cpu_ssse3_only",
                },
                inits,
            );
            // cells actually reached in this world: a generate only reaches the aggregation if it got past the gates
            let reached = h.ops.iter().zip(tr.iter()).fold(0u8, |a, (o, l)| if l.starts_with("gen Err") { a } else { a | cells_of(o) });
            if inits != reached.count_ones() as u64 {
                // Each touched cell is expected to initialise once per world.  If the tree stops using the
                // seam (e.g. its own cache) this is not a property violation -- but the sweep then no longer
                // selects backends, which the evidence must show.
                st.hit("probe.SEAM_BYPASSED_init_count_mismatch");
            }
            states.push((mi as u64) << 8 | cells as u64);
            match &reference {
                None => {
                    for l in &tr {
                        fnv.write(l.as_bytes());
                        if l.starts_with("PANIC") {
                            result = Some(Violation { class: format!("panic:{l}"), detail: format!("cpu {name}: {l}") });
                        }
                    }
                    reference = Some(tr);
                }
                Some(r) => {
                    if let Some(i) = (0..tr.len()).find(|&i| tr[i] != r[i]) {
                        result = Some(Violation {
                            class: format!("backend-differs:{name}"),
                            detail: format!("op #{i} {}: simulated CPU {name} gives `{}`, CPU none (naive / pseudo-SIMD) gives `{}`", op_json(&h.ops[i]), tr[i], r[i]),
                        });
                    }
                }
            }
            if result.is_some() {
                break;
            }
        }
        verif::set_cpu_mask(verif::CPU_ALL);
        verif::boot();
        st.add("probe.cpu_query.avx2", Q_AVX2.swap(0, Ordering::Relaxed));
        st.add("probe.cpu_query.sse4.1", Q_SSE41.swap(0, Ordering::Relaxed));
        st.add("probe.cpu_query.ssse3", Q_SSSE3.swap(0, Ordering::Relaxed));
        st.add("probe.cpu_query.sse2", Q_SSE2.swap(0, Ordering::Relaxed));
        result
    }
}

pub struct C07Cpu;

impl Scenario for C07Cpu {
    type Hist = Hist;
    fn name(&self) -> &'static str {
        "c07cpu"
    }
    fn property(&self) -> &'static str {
        "C07"
    }
    fn rule(&self) -> &'static str {
        "history = op sequence over generate / parse / binary+accessors / format / compare / max_distance on the five variants, executed once per simulated CPU; \
         distinct = distinct op-sequence digests; non-trivial = the sequence touches at least one runtime-dispatched cell (a generate or a 32/64-byte compare); states = (cpu tier, set of dispatch cells touched)"
    }
    fn generate(&self, r: &mut Rng, _index: u64) -> Hist {
        let n = r.range(1, 12) as usize;
        Hist { ops: draw_ops(r, n) }
    }
    fn execute(&self, h: &Hist, st: &mut Stats) -> Outcome {
        let mut fnv = Fnv::new();
        let mut states = Vec::new();
        st.hit("runs");
        st.add("ops", h.ops.len() as u64);
        #[cfg(feature = "hooks")]
        let violation = cpu::run(h, st, &mut fnv, &mut states);
        #[cfg(not(feature = "hooks"))]
        let violation = Some(Violation { class: "harness".into(), detail: "c07cpu needs the hooked build".into() });
        let touched = h.ops.iter().any(|o| cells_of(o) != 0);
        Outcome { violation, digest: fnv.finish(), nontrivial: touched, states }
    }
    fn shrink(&self, h: &Hist) -> Vec<Hist> {
        let mut out = Vec::new();
        let n = h.ops.len();
        if n > 1 {
            out.push(Hist { ops: h.ops[..n / 2].to_vec() });
            out.push(Hist { ops: h.ops[n / 2..].to_vec() });
        }
        for i in 0..n {
            let mut c = h.clone();
            c.ops.remove(i);
            out.push(c);
        }
        for i in 0..n {
            for s in shrink_op(&h.ops[i]) {
                let mut c = h.clone();
                c.ops[i] = s;
                out.push(c);
            }
        }
        out
    }
    fn to_json(&self, h: &Hist) -> Value {
        json!({"ops": h.ops.iter().map(op_json).collect::<Vec<_>>()})
    }
    fn from_json(&self, v: &Value) -> Result<Hist, String> {
        Ok(Hist { ops: v["ops"].as_array().ok_or("ops")?.iter().map(op_from).collect::<Result<_, _>>()? })
    }
}

#[allow(dead_code)]
pub fn hist_digest(h: &Hist) -> u64 {
    digest_of(h)
}

/// C07 (c): the process's first calls raced by real threads on the *unhooked* crate (real
/// std::sync::OnceLock); run under Miri (whose scheduler is seeded) and natively.
/// Returns Err(description) if any task's result differs from the sequential one.
/// `fresh`: the main thread does not touch the library before the threads start (no pre-fed shared generators), and
/// every op of every thread is a generator run -- lazily built state is then first touched by racing threads.
pub fn race(seed: u64, threads: usize, ops_per_thread: usize, fresh: bool) -> Result<(u64, Vec<Value>), String> {
    let mut r = Rng::new(mix(seed, tag_of("c07race"), 0));
    let mut per: Vec<Vec<WOp>> = Vec::new();
    for _ in 0..threads {
        let mut ops = Vec::new();
        for _ in 0..ops_per_thread {
            let mut op = draw_op(&mut r);
            if fresh {
                op = WOp::Gen { v: r.below(5) as u8, data: crate::data::DataDesc::Random { seed: r.next_u64(), len: r.range(50, 160) as usize }, cut: r.below(50) as u32, o: 28 | r.below(4) as u8 };
            }
            if let WOp::Gen { v, o, .. } = &op {
                op = WOp::Gen { v: *v, data: crate::data::DataDesc::Random { seed: r.next_u64(), len: r.range(50, 160) as usize }, cut: 0, o: *o | 28 };
            }
            ops.push(op);
        }
        per.push(ops);
    }
    let shared_seed = r.next_u64();
    let shops: Vec<Vec<(u8, u8)>> = (0..threads).map(|_| (0..if fresh { 0 } else { 2 }).map(|_| (r.below(3) as u8, if r.chance(1, 2) { 30 } else { r.below(32) as u8 })).collect()).collect();
    let shared_early = if fresh { None } else { Some(crate::workload::Shared::new(shared_seed)) };
    let shared_ref = shared_early.as_ref();
    let barrier = std::sync::Barrier::new(threads);
    let got: Vec<Vec<String>> = std::thread::scope(|sc| {
        let hs: Vec<_> = per
            .iter()
            .zip(shops.iter())
            .map(|(ops, so)| {
                let b = &barrier;
                let sh = shared_ref;
                sc.spawn(move || {
                    b.wait();
                    // concurrent finalize calls on generators shared by all threads, then the thread's own first calls
                    let mut out: Vec<String> = so.iter().map(|(w, o)| sh.expect("shared generators").finalize(*w, *o)).collect();
                    out.extend(ops.iter().map(exec_op));
                    out
                })
            })
            .collect();
        hs.into_iter().map(|h| h.join().expect("race task panicked")).collect()
    });
    let mut f = Fnv::new();
    for (t, so) in shops.iter().enumerate() {
        for (i, (w, o)) in so.iter().enumerate() {
            let want = shared_ref.expect("shared generators").finalize(*w, *o);
            if got[t][i] != want {
                return Err(format!("thread {t} concurrent finalize #{i} of shared generator {w} (options {o}) returned `{}`, sequential `{want}`", got[t][i]));
            }
        }
    }
    for (t, ops) in per.iter().enumerate() {
        for (i, op) in ops.iter().enumerate() {
            let want = exec_op(op);
            let i = i + shops[t].len();
            f.write(want.as_bytes());
            if got[t][i] != want {
                return Err(format!("thread {t} op #{i} {}: racing first call returned `{}`, sequential `{}`", op_json(op), got[t][i], want));
            }
        }
    }
    Ok((f.finish(), per.iter().map(|t| Value::Array(t.iter().map(op_json).collect())).collect()))
}
