//! Explicit-state reference model of the TLSH generator (used by C11 only).
//!
//! Deliberately naive, written from the algorithm description, sharing no code with /repo:
//! state = (n: u64, last four bytes, checksum[3], buckets[256] wrapping u32).  `finalize` =
//! length gate -> full sort -> quartiles -> three-quarter / half-empty gates with the documented
//! waivers -> Q ratios in u64 or in the legacy f32 formula -> dibits by strict '>' -> length code
//! by linear scan.  Its tables are frozen copies (tables.rs).
//!
//! `fast_forward` jumps the "clock" (the stream offset) of a periodic stream exactly.

use crate::tables::{LEN_TOP, PEARSON};

pub const MAX_INPUT: u64 = 4_224_281_216;
/// past this offset nothing observable depends on bucket / checksum state any more
pub const CUTOFF: u64 = (1u64 << 32) + 8;

#[derive(Clone, Copy, Debug, PartialEq, Eq)]
pub struct Variant {
    pub buckets: usize, // 48 | 128 | 256 effective
    pub cksum: usize,   // 1 | 3
}
pub const VARIANTS: [Variant; 5] = [
    Variant { buckets: 48, cksum: 1 },
    Variant { buckets: 128, cksum: 1 },
    Variant { buckets: 128, cksum: 3 },
    Variant { buckets: 256, cksum: 1 },
    Variant { buckets: 256, cksum: 3 },
];

#[derive(Clone, Debug, PartialEq, Eq)]
pub struct Model {
    pub v: Variant,
    pub n: u64,
    /// the last min(n,4) bytes, oldest first
    pub last: [u8; 4],
    pub ck: [u8; 3],
    pub buckets: [u32; 256],
}

#[derive(Clone, Copy, Debug, PartialEq, Eq)]
pub enum MErr {
    TooLarge,
    TooSmall,
    HalfEmpty,
    ThreeQuarterEmpty,
}

#[derive(Clone, Copy, Debug)]
pub struct MOpts {
    pub conservative: bool,
    pub pure_int: bool,
    pub allow_small: bool,
    pub allow_half: bool,
    pub allow_quarter: bool,
}
impl MOpts {
    pub fn from_bits(o: u8) -> MOpts {
        MOpts { conservative: o & 1 != 0, pure_int: o & 2 != 0, allow_small: o & 4 != 0, allow_half: o & 8 != 0, allow_quarter: o & 16 != 0 }
    }
}

#[inline]
fn p(x: u8) -> u8 {
    PEARSON[x as usize]
}
/// Pearson hash of the four bytes (salt, a, b, c), from initial state 0.
#[inline]
fn pearson4(s: u8, a: u8, b: u8, c: u8) -> u8 {
    let mut h = p(s); // p(0 ^ s)
    h = p(h ^ a);
    h = p(h ^ b);
    p(h ^ c)
}
#[inline]
fn fold48(x: u8) -> u8 {
    if x >= 240 { 48 } else { x % 48 }
}

impl Model {
    pub fn new(v: Variant) -> Model {
        Model { v, n: 0, last: [0; 4], ck: [0; 3], buckets: [0; 256] }
    }
    #[inline]
    fn bmap(&self, s: u8, a: u8, b: u8, c: u8) -> u8 {
        let x = pearson4(s, a, b, c);
        if self.v.buckets == 48 { fold48(x) } else { x }
    }
    #[inline]
    pub fn step(&mut self, b4: u8) {
        if self.n < 4 {
            self.last[self.n as usize] = b4;
            self.n += 1;
            return;
        }
        if self.n >= CUTOFF {
            // results no longer depend on the state (finalize is TooLarge, length is all that is observable)
            self.n += 1;
            return;
        }
        let [b0, b1, b2, b3] = self.last;
        // checksum
        self.ck[0] = self.bmap(0, b4, b3, self.ck[0]);
        if self.v.cksum == 3 {
            self.ck[1] = pearson4(self.ck[0], b4, b3, self.ck[1]);
            self.ck[2] = pearson4(self.ck[1], b4, b3, self.ck[2]);
        }
        // six salted triplets
        for (salt, x, y) in [(2u8, b3, b2), (3, b3, b1), (5, b2, b1), (7, b2, b0), (11, b3, b0), (13, b1, b0)] {
            let i = self.bmap(salt, b4, x, y) as usize;
            self.buckets[i] = self.buckets[i].wrapping_add(1);
        }
        self.last = [b1, b2, b3, b4];
        self.n += 1;
    }
    pub fn feed(&mut self, data: &[u8]) {
        for &b in data {
            self.step(b);
        }
    }
    /// Adds `len` bytes whose content no longer matters (only valid once n >= CUTOFF).
    pub fn skip(&mut self, len: u64) {
        debug_assert!(self.n >= CUTOFF);
        self.n += len;
    }

    pub fn processed_len(&self) -> Option<u32> {
        if self.n < (1u64 << 32) { Some(self.n as u32) } else { None }
    }

    pub fn length_code(n: u64) -> Option<u8> {
        if n == 0 {
            return Some(0);
        }
        for (i, &top) in LEN_TOP.iter().enumerate() {
            if n <= top as u64 {
                return Some(i as u8);
            }
        }
        None
    }

    /// The TLSH hex string ("T1...") or the rejection.
    pub fn finalize(&self, o: MOpts) -> Result<String, MErr> {
        let (min, min_cons) = if self.v.buckets == 48 { (10u64, 10u64) } else { (50, 128) };
        if self.n > MAX_INPUT {
            return Err(MErr::TooLarge);
        }
        let too_small = self.n < min || (o.conservative && self.n < min_cons);
        if too_small && !o.allow_small {
            return Err(MErr::TooSmall);
        }
        let nb = self.v.buckets;
        let eff = &self.buckets[..nb];
        let mut sorted: Vec<u32> = eff.to_vec();
        sorted.sort_unstable();
        let (mut q1, mut q2, mut q3) = (sorted[nb / 4 - 1], sorted[nb / 2 - 1], sorted[3 * nb / 4 - 1]);
        if q3 == 0 {
            if !o.allow_quarter {
                return Err(MErr::ThreeQuarterEmpty);
            }
            q1 = 1;
            q2 = 1;
            q3 = 1;
        }
        let nonzero = eff.iter().filter(|&&x| x != 0).count();
        let min_nonzero = match nb {
            48 => 18,
            128 => 65,
            _ => 129,
        };
        if nonzero < min_nonzero && !(o.allow_half || o.allow_quarter) {
            return Err(MErr::HalfEmpty);
        }
        let (r1, r2) = if o.pure_int {
            ((((q1 as u64 * 100) / q3 as u64) % 16) as u8, (((q2 as u64 * 100) / q3 as u64) % 16) as u8)
        } else {
            // legacy formula: 32-bit unsigned multiply (wraps), then single-precision divide, truncate
            let f = |q: u32| -> u8 { ((((q.wrapping_mul(100)) as f32) / (q3 as f32)) as u32 % 16) as u8 };
            (f(q1), f(q2))
        };
        let lcode = Model::length_code(self.n).expect("n <= MAX");
        let mut body = vec![0u8; nb / 4];
        for (i, &b) in eff.iter().enumerate() {
            let d: u8 = if b > q3 {
                3
            } else if b > q2 {
                2
            } else if b > q1 {
                1
            } else {
                0
            };
            let byte = nb / 4 - 1 - i / 4;
            body[byte] |= d << (2 * (i % 4));
        }
        let mut s = String::from("T1");
        let swap = |x: u8| -> String { format!("{:X}{:X}", x & 15, x >> 4) };
        for i in 0..self.v.cksum {
            s.push_str(&swap(self.ck[i]));
        }
        s.push_str(&swap(lcode));
        s.push_str(&swap(r2 << 4 | r1));
        for b in body {
            s.push_str(&format!("{b:02X}"));
        }
        Ok(s)
    }

    /// Jumps a periodic stream forward: the model must have consumed `self.n >= 4` bytes of the stream
    /// s[i] = pattern[i mod P] (so `self.n` is the index of the next byte).  Advances by `periods` full
    /// periods exactly (buckets in closed form, checksum by cycle detection).  Returns false if the
    /// checksum orbit was not resolved within `cap` period-steps (state is then unchanged).
    pub fn fast_forward(&mut self, pattern: &[u8], periods: u64, cap: u64) -> bool {
        assert!(self.n >= 4 && self.n < CUTOFF);
        let pl = pattern.len() as u64;
        assert!(pl > 0);
        if periods == 0 {
            return true;
        }
        assert!(self.n + periods * pl <= CUTOFF, "fast-forward must stay inside the range where the state matters");
        let phase = (self.n % pl) as usize;
        let one_period = |m: &mut Model| {
            for k in 0..pattern.len() {
                m.step(pattern[(phase + k) % pattern.len()]);
            }
        };
        // per-period bucket hits (independent of the checksum)
        let mut probe = self.clone();
        probe.buckets = [0; 256];
        one_period(&mut probe);
        debug_assert_eq!(probe.last, self.last, "window is periodic");
        let delta = probe.buckets;
        // checksum after `periods` periods: hierarchical orbit walk (see ck_jump)
        let pairs: Vec<(u8, u8)> = (0..pattern.len())
            .map(|k| (pattern[(phase + k) % pattern.len()], pattern[(phase + k + pattern.len() - 1) % pattern.len()]))
            .collect();
        debug_assert_eq!(pairs[0].1, self.last[3]);
        let Some(final_ck) = ck_jump(self.v, &pairs, self.ck, periods, cap) else { return false };
        for i in 0..256 {
            self.buckets[i] = self.buckets[i].wrapping_add((delta[i] as u64).wrapping_mul(periods) as u32);
        }
        self.ck = final_ck;
        self.n += periods * pl;
        true
    }

    /// Brings a fresh model to exactly `target` bytes of the periodic stream (target <= CUTOFF).
    pub fn at_offset(v: Variant, pattern: &[u8], target: u64, cap: u64) -> Option<Model> {
        let mut m = Model::new(v);
        let pl = pattern.len() as u64;
        let pre = target.min(4 + pl);
        for i in 0..pre {
            m.step(pattern[(i % pl) as usize]);
        }
        if m.n < target {
            let periods = (target - m.n) / pl;
            if !m.fast_forward(pattern, periods, cap) {
                return None;
            }
            while m.n < target {
                let b = pattern[(m.n % pl) as usize];
                m.step(b);
            }
        }
        Some(m)
    }
}

/// Per-position constants of a periodic stream for checksum-only stepping.
/// Position k has (cur, prev); then  c0' = T[a[k] ^ c0],  c1' = T[b[k][c0'] ^ c1],  c2' = T[b[k][c1'] ^ c2]
/// where a[k] = T[T[T[0]^cur]^prev] and b[k][x] = T[T[T[x]^cur]^prev]  (Pearson hashing is a chain of lookups).
struct CkTables {
    v: Variant,
    a: Vec<u8>,
    b: Vec<[u8; 256]>,
}
impl CkTables {
    fn new(v: Variant, pairs: &[(u8, u8)]) -> CkTables {
        let mut a = Vec::new();
        let mut b = Vec::new();
        for &(cur, prev) in pairs {
            a.push(p(p(p(0) ^ cur) ^ prev));
            let mut t = [0u8; 256];
            for x in 0..256usize {
                t[x] = p(p(p(x as u8) ^ cur) ^ prev);
            }
            b.push(t);
        }
        CkTables { v, a, b }
    }
    #[inline]
    fn period(&self, mut ck: [u8; 3]) -> [u8; 3] {
        for k in 0..self.a.len() {
            let x = p(self.a[k] ^ ck[0]);
            ck[0] = if self.v.buckets == 48 { fold48(x) } else { x };
            if self.v.cksum == 3 {
                ck[1] = p(self.b[k][ck[0] as usize] ^ ck[1]);
                ck[2] = p(self.b[k][ck[1] as usize] ^ ck[2]);
            }
        }
        ck
    }
    fn direct(&self, mut ck: [u8; 3], k: u64) -> [u8; 3] {
        for _ in 0..k {
            ck = self.period(ck);
        }
        ck
    }
}

/// The orbit structure of one start state (cached: it only depends on the stream and the start state).
struct Jump {
    mu0: u64,
    l0: u64,
    /// state after mu0 periods (byte 0 on its cycle)
    on_cycle: [u8; 3],
    m1: u64,
    /// states at super-round boundaries (byte 2's orbit under one super-round = m1 * l0 periods)
    orbit: Vec<[u8; 3]>,
}

type JumpKey = (bool, usize, Vec<(u8, u8)>, [u8; 3]);
static JUMP_CACHE: std::sync::Mutex<std::collections::BTreeMap<JumpKey, Option<std::sync::Arc<Jump>>>> =
    std::sync::Mutex::new(std::collections::BTreeMap::new());

fn build_jump(tb: &CkTables, ck0: [u8; 3], cap: u64) -> Option<Jump> {
    let v = tb.v;
    // level 0: tail mu0 and cycle l0 of byte 0 (it does not depend on bytes 1, 2)
    let mut seen = [u32::MAX; 256];
    let mut c = [ck0[0], 0, 0];
    let mut i = 0u32;
    while seen[c[0] as usize] == u32::MAX {
        seen[c[0] as usize] = i;
        c = tb.period([c[0], 0, 0]);
        i += 1;
    }
    let mu0 = seen[c[0] as usize] as u64;
    let l0 = i as u64 - mu0;
    let on_cycle = tb.direct(ck0, mu0);
    if v.cksum == 1 {
        return Some(Jump { mu0, l0, on_cycle, m1: 1, orbit: vec![on_cycle] });
    }
    // level 1: orbit of byte 1 under one round (l0 periods), byte 0 being on its cycle
    let y0 = on_cycle[1];
    let mut m1 = 0u64;
    let mut t = on_cycle;
    loop {
        t = tb.direct(t, l0);
        m1 += 1;
        if t[1] == y0 {
            break;
        }
        if m1 > 256 {
            return None; // cannot happen for a permutation; defensive
        }
    }
    // level 2: byte 2 under one super-round (m1 rounds).  Bytes 0 and 1 repeat every super-round, so the
    // sequence of keys k2[t] = b[k][c1'] is fixed: compute it once, then byte 2 is a plain lookup chain.
    let steps = m1 * l0 * tb.a.len() as u64;
    if steps > cap {
        return None;
    }
    let mut k2 = Vec::with_capacity(steps as usize);
    let mut ck = on_cycle;
    for _ in 0..m1 * l0 {
        for k in 0..tb.a.len() {
            ck[0] = p(tb.a[k] ^ ck[0]);
            ck[1] = p(tb.b[k][ck[0] as usize] ^ ck[1]);
            k2.push(tb.b[k][ck[1] as usize]);
        }
    }
    debug_assert_eq!((ck[0], ck[1]), (on_cycle[0], on_cycle[1]));
    let z0 = on_cycle[2];
    let mut orbit = vec![on_cycle];
    let mut z = z0;
    loop {
        for &k in &k2 {
            z = p(k ^ z);
        }
        if z == z0 {
            break;
        }
        orbit.push([on_cycle[0], on_cycle[1], z]);
        if orbit.len() > 256 {
            return None;
        }
    }
    Some(Jump { mu0, l0, on_cycle, m1, orbit })
}

/// Exact checksum after `periods` periods of the stream described by `pairs`
/// (`pairs[k]` = (current byte, previous byte) at position k of the period).
///
/// The per-period map is triangular: byte 0 evolves on its own (orbit <= 256 + tail), byte 1 is
/// permuted given byte 0, byte 2 is permuted given bytes 0-1.  So: walk byte 0 onto its cycle
/// (length l0); one "round" = l0 periods permutes byte 1 -> orbit of m1 <= 256 rounds; one
/// "super-round" = m1 rounds permutes byte 2 -> orbit of m2 <= 256.  `cap` bounds the length of one
/// super-round in byte steps (None when exceeded: the caller draws another pattern).
pub fn ck_jump(v: Variant, pairs: &[(u8, u8)], ck0: [u8; 3], periods: u64, cap: u64) -> Option<[u8; 3]> {
    let tb = CkTables::new(v, pairs);
    if periods <= 4096 {
        return Some(tb.direct(ck0, periods));
    }
    let key: JumpKey = (v.buckets == 48, v.cksum, pairs.to_vec(), ck0);
    let cached = JUMP_CACHE.lock().unwrap().get(&key).cloned();
    let j = match cached {
        Some(j) => j,
        None => {
            let j = build_jump(&tb, ck0, cap).map(std::sync::Arc::new);
            let mut c = JUMP_CACHE.lock().unwrap();
            if c.len() > 4096 {
                c.clear();
            }
            c.insert(key, j.clone());
            j
        }
    }?;
    let left = periods - j.mu0;
    let rounds = left / j.l0;
    let rem_periods = left % j.l0;
    let supers = rounds / j.m1;
    let rem_rounds = rounds % j.m1;
    let ck = j.orbit[(supers % j.orbit.len() as u64) as usize];
    debug_assert_eq!((ck[0], ck[1]), (j.on_cycle[0], j.on_cycle[1]));
    Some(tb.direct(ck, rem_rounds * j.l0 + rem_periods))
}
