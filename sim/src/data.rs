//! Seeded byte sources. A history stores the *descriptor*, never raw megabytes,
//! so replay files stay small and replay regenerates identical bytes.

use crate::prng::Rng;
use std::sync::atomic::{AtomicBool, Ordering};

/// `--small`: keep generated inputs tiny (interpreted engines: Miri)
pub static SMALL: AtomicBool = AtomicBool::new(false);
pub fn small() -> bool {
    SMALL.load(Ordering::Relaxed)
}
use serde_json::{json, Value};

#[derive(Clone, Debug, Hash, PartialEq, Eq)]
pub enum DataDesc {
    /// uniform random bytes from `seed`
    Random { seed: u64, len: usize },
    /// bytes drawn from a small alphabet (low entropy: few buckets are hit)
    Alphabet { seed: u64, alpha: u8, len: usize },
    /// `pattern` repeated
    Periodic { pattern: Vec<u8>, len: usize },
    /// text-like (printable, spaces, newlines)
    Text { seed: u64, len: usize },
    /// one byte repeated (the simplest shrink target)
    Const { byte: u8, len: usize },
    /// explicit bytes (small)
    Explicit(Vec<u8>),
    /// random bytes with one embedded run of a repeated short pattern (padding, zero / space runs inside ordinary data)
    Padded { seed: u64, len: usize, pad_at: usize, pad_len: usize, pattern: Vec<u8> },
}

impl DataDesc {
    pub fn len(&self) -> usize {
        match self {
            DataDesc::Random { len, .. }
            | DataDesc::Alphabet { len, .. }
            | DataDesc::Periodic { len, .. }
            | DataDesc::Text { len, .. }
            | DataDesc::Const { len, .. }
            | DataDesc::Padded { len, .. } => *len,
            DataDesc::Explicit(v) => v.len(),
        }
    }
    pub fn with_len(&self, n: usize) -> DataDesc {
        let mut d = self.clone();
        match &mut d {
            DataDesc::Random { len, .. }
            | DataDesc::Alphabet { len, .. }
            | DataDesc::Periodic { len, .. }
            | DataDesc::Text { len, .. }
            | DataDesc::Const { len, .. }
            | DataDesc::Padded { len, .. } => *len = n,
            DataDesc::Explicit(v) => v.truncate(n),
        }
        d
    }
    pub fn bytes(&self) -> Vec<u8> {
        match self {
            DataDesc::Random { seed, len } => {
                let mut v = vec![0u8; *len];
                Rng::new(*seed).fill(&mut v);
                v
            }
            DataDesc::Alphabet { seed, alpha, len } => {
                let mut r = Rng::new(*seed);
                let a = (*alpha).max(1) as u64;
                let mut letters = [0u8; 8];
                r.fill(&mut letters);
                let mut v = vec![0u8; *len];
                let mut i = 0;
                while i < v.len() {
                    let mut w = r.next_u64();
                    let mut k = 0;
                    while k < 16 && i < v.len() {
                        v[i] = letters[((w & 0xf) % a) as usize];
                        w >>= 4;
                        i += 1;
                        k += 1;
                    }
                }
                v
            }
            DataDesc::Periodic { pattern, len } => {
                let p = if pattern.is_empty() { &[0u8][..] } else { &pattern[..] };
                (0..*len).map(|i| p[i % p.len()]).collect()
            }
            DataDesc::Text { seed, len } => {
                let mut r = Rng::new(*seed);
                const A: &[u8] = b"etaoin shrdlu cmfwyp ETAOIN.,;\n0123456789-_(){}<>=\"'/";
                (0..*len).map(|_| A[r.below(A.len() as u64) as usize]).collect()
            }
            DataDesc::Const { byte, len } => vec![*byte; *len],
            DataDesc::Explicit(v) => v.clone(),
            DataDesc::Padded { seed, len, pad_at, pad_len, pattern } => {
                let mut v = vec![0u8; *len];
                Rng::new(*seed).fill(&mut v);
                let a = (*pad_at).min(*len);
                let b = (a + *pad_len).min(*len);
                let p = if pattern.is_empty() { &[0u8][..] } else { &pattern[..] };
                for (i, x) in v[a..b].iter_mut().enumerate() {
                    *x = p[i % p.len()];
                }
                v
            }
        }
    }
    pub fn to_json(&self) -> Value {
        match self {
            DataDesc::Random { seed, len } => json!({"class":"random","seed":seed.to_string(),"len":len}),
            DataDesc::Alphabet { seed, alpha, len } => {
                json!({"class":"alphabet","seed":seed.to_string(),"alpha":alpha,"len":len})
            }
            DataDesc::Periodic { pattern, len } => {
                json!({"class":"periodic","pattern":hex(pattern),"len":len})
            }
            DataDesc::Text { seed, len } => json!({"class":"text","seed":seed.to_string(),"len":len}),
            DataDesc::Const { byte, len } => json!({"class":"const","byte":byte,"len":len}),
            DataDesc::Explicit(v) => json!({"class":"explicit","hex":hex(v)}),
            DataDesc::Padded { seed, len, pad_at, pad_len, pattern } => {
                json!({"class":"padded","seed":seed.to_string(),"len":len,"pad_at":pad_at,"pad_len":pad_len,"pattern":hex(pattern)})
            }
        }
    }
    pub fn from_json(v: &Value) -> Result<DataDesc, String> {
        let class = v["class"].as_str().ok_or("data.class")?;
        let len = v["len"].as_u64().unwrap_or(0) as usize;
        let seed = || -> Result<u64, String> {
            v["seed"].as_str().ok_or("data.seed")?.parse::<u64>().map_err(|e| e.to_string())
        };
        Ok(match class {
            "random" => DataDesc::Random { seed: seed()?, len },
            "alphabet" => DataDesc::Alphabet { seed: seed()?, alpha: v["alpha"].as_u64().ok_or("alpha")? as u8, len },
            "periodic" => DataDesc::Periodic { pattern: unhex(v["pattern"].as_str().ok_or("pattern")?)?, len },
            "text" => DataDesc::Text { seed: seed()?, len },
            "const" => DataDesc::Const { byte: v["byte"].as_u64().ok_or("byte")? as u8, len },
            "explicit" => DataDesc::Explicit(unhex(v["hex"].as_str().ok_or("hex")?)?),
            "padded" => DataDesc::Padded {
                seed: seed()?,
                len,
                pad_at: v["pad_at"].as_u64().ok_or("pad_at")? as usize,
                pad_len: v["pad_len"].as_u64().ok_or("pad_len")? as usize,
                pattern: unhex(v["pattern"].as_str().ok_or("pattern")?)?,
            },
            _ => return Err(format!("unknown data class {class}")),
        })
    }
    /// Simpler descriptors of the same or smaller length, for the shrinker.
    pub fn shrink(&self) -> Vec<DataDesc> {
        let n = self.len();
        let mut out = Vec::new();
        for m in [0, n / 2, n.saturating_sub(1), n.saturating_sub(n / 4)] {
            if m < n {
                out.push(self.with_len(m));
            }
        }
        match self {
            DataDesc::Const { byte, len } => {
                if *byte != 0 {
                    out.push(DataDesc::Const { byte: 0, len: *len });
                }
            }
            DataDesc::Explicit(_) => {}
            DataDesc::Padded { seed, len, pad_at, pad_len, pattern } => {
                for pl in [pad_len / 2, pad_len.saturating_sub(1)] {
                    if pl < *pad_len {
                        out.push(DataDesc::Padded { seed: *seed, len: *len, pad_at: *pad_at, pad_len: pl, pattern: pattern.clone() });
                    }
                }
                if *pad_at != 0 {
                    out.push(DataDesc::Padded { seed: *seed, len: *len, pad_at: 0, pad_len: *pad_len, pattern: pattern.clone() });
                }
            }
            _ => {
                out.push(DataDesc::Const { byte: 0x41, len: n });
                if n <= 64 {
                    out.push(DataDesc::Explicit(self.bytes()));
                }
            }
        }
        out
    }
}

/// Draws a data descriptor. `lens` decides the length distribution.
pub fn draw_data(r: &mut Rng, len: usize) -> DataDesc {
    if len >= 64 && r.chance(if len >= 32768 { 40 } else { 8 }, 100) {
        // ordinary data with one long run of padding inside
        let pattern = match r.below(5) {
            0 => vec![0u8],
            1 => vec![b' '],
            2 => vec![0xa4, 0x0e],
            3 => vec![*r.pick(&[b' ', b'0', b'A', b'a', 0xff, b'\n', b'.', b'-', b'=', b'*', b'_', 0x90, 0xcc])],
            _ => {
                let mut p = vec![0u8; r.range(2, 4) as usize];
                r.fill(&mut p);
                p
            }
        };
        let pad_len = match r.below(4) {
            0 => r.range(8, 200) as usize,
            1 => r.range(200, 5000) as usize,
            _ => r.range((len / 2) as u64, len as u64) as usize,
        }
        .min(len);
        let pad_at = r.below((len - pad_len) as u64 + 1) as usize;
        return DataDesc::Padded { seed: r.next_u64(), len, pad_at, pad_len, pattern };
    }
    match r.below(100) {
        0..=44 => DataDesc::Random { seed: r.next_u64(), len },
        45..=59 => DataDesc::Alphabet { seed: r.next_u64(), alpha: r.range(1, 4) as u8, len },
        60..=79 => {
            let p = r.range(1, 16) as usize;
            let mut pattern = vec![0u8; p];
            r.fill(&mut pattern);
            DataDesc::Periodic { pattern, len }
        }
        80..=94 => DataDesc::Text { seed: r.next_u64(), len },
        _ => DataDesc::Const { byte: r.next_u64() as u8, len },
    }
}

/// Length distribution that concentrates on the generator's thresholds.
pub fn draw_small_len(r: &mut Rng) -> usize {
    if small() {
        const E: &[usize] = &[0, 1, 3, 4, 5, 9, 10, 11, 49, 50, 51, 127, 128, 129];
        return if r.chance(1, 2) { *r.pick(E) } else { r.range(0, 260) as usize };
    }
    const EDGES: &[usize] = &[
        0, 1, 2, 3, 4, 5, 6, 7, 8, 9, 10, 11, 12, 48, 49, 50, 51, 52, 127, 128, 129, 130, 255, 256, 257,
    ];
    match r.below(100) {
        0..=34 => *r.pick(EDGES),
        35..=69 => r.range(0, 200) as usize,
        70..=89 => r.range(200, 4096) as usize,
        _ => r.range(4096, 65536) as usize,
    }
}

pub fn hex(b: &[u8]) -> String {
    const D: &[u8; 16] = b"0123456789abcdef";
    let mut s = String::with_capacity(b.len() * 2);
    for &x in b {
        s.push(D[(x >> 4) as usize] as char);
        s.push(D[(x & 15) as usize] as char);
    }
    s
}
pub fn unhex(s: &str) -> Result<Vec<u8>, String> {
    let b = s.as_bytes();
    if b.len() % 2 != 0 {
        return Err("odd hex".into());
    }
    let d = |c: u8| -> Result<u8, String> {
        match c {
            b'0'..=b'9' => Ok(c - b'0'),
            b'a'..=b'f' => Ok(c - b'a' + 10),
            b'A'..=b'F' => Ok(c - b'A' + 10),
            _ => Err("bad hex".into()),
        }
    };
    let mut v = Vec::with_capacity(b.len() / 2);
    for p in b.chunks(2) {
        v.push(d(p[0])? << 4 | d(p[1])?);
    }
    Ok(v)
}
