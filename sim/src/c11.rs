//! C11 — behaviour around the 4,224,281,216-byte and 2^32-byte marks.
//!
//! Scenario "c11": the stream offset is the only "clock" of the generator.  The reference model jumps
//! the clock of a periodic stream to an offset n0 just below one of the marks (model::fast_forward —
//! a state a real stream does reach); the same state is injected into a real generator through the
//! state seam (hook H3).  Then a seeded history of pieces / clone / finalize / processed_len runs on
//! both, compared after every step.
//! Scenario "c11small": model == implementation on ordinary small inputs fed in pieces (validates the
//! model and the "equals the reference for n <= MAX" clause where real bytes are cheap), and
//! fast_forward == direct simulation.

use crate::data::{draw_data, draw_small_len, hex, unhex, DataDesc};
use crate::framework::{guarded, panic_class, Outcome, Scenario, Stats, Violation};
use crate::kinds::{options, render, Kind, VARIANT_NAMES};
use crate::model::{MErr, MOpts, Model, CUTOFF, MAX_INPUT, VARIANTS};
use crate::prng::{Fnv, Rng};
use crate::with_kind;
use serde_json::{json, Value};
use tlsh::GeneratorType;

pub fn render_model(r: &Result<String, MErr>) -> String {
    match r {
        Ok(s) => s.clone(),
        Err(MErr::TooLarge) => "Err(TooLargeInput)".into(),
        Err(MErr::TooSmall) => "Err(TooSmallInput)".into(),
        Err(MErr::HalfEmpty) => "Err(BucketsAreHalfEmpty)".into(),
        Err(MErr::ThreeQuarterEmpty) => "Err(BucketsAreThreeQuarterEmpty)".into(),
    }
}

const P32: u64 = 1 << 32;
/// bound on the length (byte steps) of one checksum super-round in the model's clock jump
const JUMP_CAP: u64 = 400_000;

#[derive(Clone, Debug, Hash, PartialEq, Eq)]
pub enum Op {
    /// continue the periodic stream by `len` bytes
    Cont(u64),
    /// feed `len` arbitrary bytes (seeded)
    Arb { seed: u64, len: u32 },
    /// one update() call with an empty slice
    Empty,
    Finalize(u8),
    FinalizeAll,
    Len,
    /// clone; keep working on the clone, check the original at the end
    Clone,
}

#[derive(Clone, Debug, Hash, PartialEq, Eq)]
pub struct Hist {
    pub variant: u8,
    pub pattern: Vec<u8>,
    pub start: u64,
    pub ops: Vec<Op>,
    /// simulated CPU for this run (0 none, 1 sse2, 2 sse4.1+ssse3, 3 everything the host has): the quartile / body code of
    /// every backend meets the bucket counts only multi-GiB inputs produce.  The mask is process-global, so histories
    /// with cpu != 3 are only generated when the batch runs single-threaded per process.
    pub cpu: u8,
}

pub struct C11;

#[cfg(feature = "hooks")]
fn inject<K: Kind>(m: &Model) -> K::G
where
    K::G: tlsh::generate::VerifState,
{
    use tlsh::generate::VerifState;
    assert!(m.n >= 4 && m.n < P32);
    <K::G as VerifState>::verif_from_state(&m.buckets, (m.n - 4) as u32, m.last, 4, m.ck)
}

const SAMPLE_OPTS: [u8; 6] = [30, 28, 0, 2, 31, 14];

pub fn compare_pub<K: Kind>(g: &K::G, m: &Model, opts: &[u8], fnv: &mut Fnv, st: &mut Stats) -> Option<Violation> {
    compare::<K>(g, m, opts, fnv, st)
}

fn compare<K: Kind>(g: &K::G, m: &Model, opts: &[u8], fnv: &mut Fnv, st: &mut Stats) -> Option<Violation> {
    let want_len = m.processed_len();
    let got_len = g.processed_len();
    if want_len != got_len {
        return Some(Violation {
            class: "processed-len".into(),
            detail: format!("after {} bytes: processed_len() = {:?}, expected {:?}", m.n, got_len, want_len),
        });
    }
    for &o in opts {
        let got = render(&g.finalize_with_options(&options(o)));
        let want = render_model(&m.finalize(MOpts::from_bits(o)));
        fnv.write(got.as_bytes());
        if (got == "Err(TooLargeInput)") != (m.n > MAX_INPUT) {
            return Some(Violation {
                class: "too-large-boundary".into(),
                detail: format!("after {} bytes (limit {}), options#{o}: finalize = {got}", m.n, MAX_INPUT),
            });
        }
        if got != want {
            return Some(Violation {
                class: "differs-from-reference".into(),
                detail: format!("after {} bytes, options#{o}: implementation {got}, reference model {want}", m.n),
            });
        }
        if m.n == MAX_INPUT && got.starts_with("T1") {
            st.hit("probe.success_at_exactly_MAX");
        }
    }
    None
}

#[cfg(feature = "hooks")]
fn run<K: Kind>(h: &Hist, st: &mut Stats, fnv: &mut Fnv, states: &mut Vec<u64>) -> Option<Violation>
where
    K::G: tlsh::generate::VerifState,
{
    let v = VARIANTS[K::ID as usize];
    let pl = h.pattern.len() as u64;
    let Some(mut m) = Model::at_offset(v, &h.pattern, h.start, JUMP_CAP) else {
        st.hit("probe.checksum_orbit_cap_hit");
        return None;
    };
    st.add("sim_bytes_jumped", h.start);
    st.hit("fault.clock_jumped_and_state_injected");
    let mut g = inject::<K>(&m);
    if let Some(v) = compare::<K>(&g, &m, &SAMPLE_OPTS[..2], fnv, st) {
        return Some(Violation { detail: format!("right after state injection: {}", v.detail), ..v });
    }
    let mut parked: Vec<(K::G, Model)> = Vec::new();
    for (step, op) in h.ops.iter().enumerate() {
        st.hit("ops");
        let before = m.n;
        match op {
            Op::Cont(len) => {
                let len = *len;
                let phase = (m.n % pl) as usize;
                let buf: Vec<u8> = (0..len as usize).map(|i| h.pattern[(phase + i) % h.pattern.len()]).collect();
                g.update(&buf);
                st.add("sim_bytes_fed", len);
                // model: direct for the first bytes (window may be aperiodic), then jump, then direct
                let mut left = len;
                let direct = left.min(4 + pl);
                for i in 0..direct {
                    m.step(h.pattern[(phase + i as usize) % h.pattern.len()]);
                }
                left -= direct;
                if left > 0 && m.n < CUTOFF {
                    let room = CUTOFF - m.n;
                    let periods = left.min(room) / pl;
                    if periods > 0 {
                        if !m.fast_forward(&h.pattern, periods, JUMP_CAP) {
                            st.hit("probe.checksum_orbit_cap_hit");
                            return None;
                        }
                        left -= periods * pl;
                    }
                }
                while left > 0 && m.n < CUTOFF {
                    let b = h.pattern[(m.n % pl) as usize];
                    m.step(b);
                    left -= 1;
                }
                if left > 0 {
                    m.skip(left);
                }
            }
            Op::Arb { seed, len } => {
                let mut buf = vec![0u8; *len as usize];
                Rng::new(*seed).fill(&mut buf);
                g.update(&buf);
                st.add("sim_bytes_fed", *len as u64);
                if m.n >= CUTOFF {
                    m.skip(*len as u64);
                } else {
                    m.feed(&buf);
                }
            }
            Op::Empty => g.update(&[]),
            Op::Finalize(o) => {
                if let Some(v) = compare::<K>(&g, &m, &[*o], fnv, st) {
                    return Some(Violation { detail: format!("step {step}: {}", v.detail), ..v });
                }
            }
            Op::FinalizeAll => {
                let all: Vec<u8> = (0..32).collect();
                if let Some(v) = compare::<K>(&g, &m, &all, fnv, st) {
                    return Some(Violation { detail: format!("step {step}: {}", v.detail), ..v });
                }
            }
            Op::Len => {}
            Op::Clone => {
                if parked.len() < 3 {
                    parked.push((g.clone(), m.clone()));
                }
            }
        }
        // crossing probes
        let after = m.n;
        if before <= MAX_INPUT && after > MAX_INPUT {
            st.hit("probe.crossed_MAX");
            if after - before > 1 && before < MAX_INPUT {
                st.hit("probe.one_piece_straddles_MAX");
            }
        }
        if after == MAX_INPUT {
            st.hit("probe.landed_exactly_on_MAX");
        }
        if before < P32 && after >= P32 {
            st.hit("probe.crossed_2^32");
            if before < P32 - 4 && after > P32 {
                st.hit("probe.one_piece_straddles_2^32");
            }
        }
        if after == P32 - 4 || after == P32 - 1 || after == P32 {
            st.hit("probe.landed_on_2^32_edge");
        }
        if before >= P32 && after > before {
            st.hit("probe.fed_past_2^32");
        }
        let zone = if after < MAX_INPUT {
            0
        } else if after == MAX_INPUT {
            1
        } else if after < P32 - 4 {
            2
        } else if after < P32 {
            3
        } else if after == P32 {
            4
        } else {
            5
        };
        states.push((K::ID as u64) << 16 | zone << 8 | ((after - before).min(9)) << 4 | (matches!(op, Op::Clone) as u64));
        // after every op: length + two option settings
        if let Some(v) = compare::<K>(&g, &m, &SAMPLE_OPTS[..2], fnv, st) {
            return Some(Violation { detail: format!("after step {step} ({op:?}): {}", v.detail), ..v });
        }
    }
    // end: everything, including the parked originals (a clone must not have disturbed them)
    let all: Vec<u8> = (0..32).collect();
    if let Some(v) = compare::<K>(&g, &m, &all, fnv, st) {
        return Some(Violation { detail: format!("end of run: {}", v.detail), ..v });
    }
    for (pg, pm) in &parked {
        if let Some(v) = compare::<K>(pg, pm, &SAMPLE_OPTS, fnv, st) {
            return Some(Violation { class: format!("clone-{}", v.class), detail: format!("original after its clone moved on: {}", v.detail) });
        }
    }
    None
}

fn draw_start(r: &mut Rng) -> u64 {
    let k = r.below(10);
    match r.below(100) {
        0..=29 => MAX_INPUT - k,
        30..=39 => MAX_INPUT - r.range(10, 5000),
        40..=64 => P32 - 5 - k,
        65..=74 => P32 - 1 - r.below(5),
        75..=79 => MAX_INPUT + 1 + k, // injected already too large, still below 2^32
        80..=83 => r.range(1 << 24, 1 << 26),
        84..=86 => {
            // just around an entry of the length table (the code changes there), upper half of the table
            let i = r.range(60, 169) as usize;
            (crate::tables::LEN_TOP[i] as u64 + 3).saturating_sub(r.below(7)).max(8)
        }
        87..=90 => r.range((1 << 31) - 100, (1 << 31) + 100),
        91..=92 => {
            // byte counts at which a bucket hit k times per byte wraps to exactly 0 (constant streams with colliding salts)
            let k = *r.pick(&[2u64, 3, 4, 6]);
            P32 / k + 4 + r.below(3) - 1
        }
        _ => r.range(8, 1 << 30),
    }
}

fn draw_cont(r: &mut Rng, n: u64) -> u64 {
    let to = |t: u64| if t > n { t - n } else { 1 };
    let l = match r.below(100) {
        0..=34 => r.range(0, 9),
        35..=44 => to(MAX_INPUT),
        45..=52 => to(MAX_INPUT + 1),
        53..=57 => to(MAX_INPUT - 1),
        58..=72 => to(P32 - 5 + r.below(11)),
        73..=84 => r.range(10, 4096),
        85..=98 => r.range(4096, 70_000),
        _ => {
            if r.chance(1, 10) {
                64 << 20
            } else {
                1 << 20
            }
        }
    };
    // a jump to a far mark would mean feeding gigabytes for real: only take it when it is close
    if l > 200_000 && l != (1 << 20) && l != (64 << 20) {
        r.range(0, 9)
    } else {
        l
    }
}

impl Scenario for C11 {
    type Hist = Hist;
    fn name(&self) -> &'static str {
        "c11"
    }
    fn property(&self) -> &'static str {
        "C11"
    }
    fn rule(&self) -> &'static str {
        "history = (variant, periodic pattern, injected start offset n0, ops over continue-stream / arbitrary bytes / empty update / finalize / clone); \
         distinct = distinct history digests; non-trivial = the history's byte count crosses or lands on 4,224,281,216 or 2^32-4..2^32 (or, for mid-range starts, feeds >= 2 pieces); \
         states = (variant, zone of the offset after the op, piece size class, clone?)"
    }
    fn generate(&self, r: &mut Rng, _index: u64) -> Hist {
        let variant = r.below(5) as u8;
        let three = VARIANTS[variant as usize].cksum == 3;
        let mut pattern;
        if three && r.chance(85, 100) {
            // 3-byte checksums: the exact clock jump needs the orbit structure of the checksum, which costs
            // tens of milliseconds per (pattern) and is cached -- draw from a fixed pool of short patterns
            let idx = r.below(40);
            pattern = vec![0u8; 1 + (idx % 6) as usize];
            Rng::new(0x5EED_0000 + idx).fill(&mut pattern);
        } else {
            let pl = if three {
                r.range(1, 2)
            } else if r.chance(7, 10) {
                r.range(1, 8)
            } else {
                r.range(9, 64)
            } as usize;
            pattern = vec![0u8; pl];
            r.fill(&mut pattern);
        }
        if r.chance(1, 8) {
            // the repository's own test pattern family
            pattern = vec![0xa4, 0x0e];
        }
        let start = draw_start(r);
        if [2u64, 3, 4, 6].iter().any(|k| start.abs_diff(P32 / k + 4) <= 1) && !three {
            // wrap-to-zero offsets only mean something for a constant stream
            pattern = vec![r.next_u64() as u8];
        }
        let nops = r.range(1, 24) as usize;
        let mut ops = Vec::new();
        let mut n = start;
        let mut big = 0;
        for _ in 0..nops {
            let x = r.below(100);
            ops.push(if x < 55 {
                let mut l = draw_cont(r, n);
                if l > (1 << 20) {
                    big += 1;
                    if big > 1 || n + l > CUTOFF + (64 << 20) {
                        l = r.range(0, 9);
                    }
                }
                // keep real feeding below ~80 MiB per run unless the generator has saturated (then it is free)
                n += l;
                Op::Cont(l)
            } else if x < 65 {
                let len = *r.pick(&[1u32, 2, 3, 4, 5, 7, 16, 100, 4096]);
                n += len as u64;
                Op::Arb { seed: r.next_u64(), len }
            } else if x < 70 {
                Op::Empty
            } else if x < 82 {
                Op::Finalize(if r.chance(1, 2) { *r.pick(&SAMPLE_OPTS) } else { r.below(32) as u8 })
            } else if x < 86 {
                Op::FinalizeAll
            } else if x < 92 {
                Op::Len
            } else {
                Op::Clone
            });
        }
        let cpu = r.below(4) as u8; // applied only when the batch runs one worker per process (the mask is process-global)
        Hist { variant, pattern, start, ops, cpu }
    }
    fn execute(&self, h: &Hist, st: &mut Stats) -> Outcome {
        let mut fnv = Fnv::new();
        let mut states = Vec::new();
        st.hit("runs");
        #[cfg(feature = "hooks")]
        {
            use tlsh::verif;
            if crate::framework::single_threaded() {
                let mask = [0, verif::CPU_SSE2, verif::CPU_SSE2 | verif::CPU_SSSE3 | verif::CPU_SSE4_1, verif::CPU_ALL][h.cpu as usize % 4];
                verif::boot();
                verif::set_cpu_mask(mask);
                st.hit(["fault.reboot_on_cpu_without_simd", "fault.reboot_on_cpu_sse2_only", "fault.reboot_on_cpu_sse4.1_ssse3_no_avx2", "fault.reboot_on_cpu_avx2"][h.cpu as usize % 4]);
            }
        }
        #[cfg(feature = "hooks")]
        let res = guarded(|| with_kind!(h.variant, K => run::<K>(h, st, &mut fnv, &mut states)));
        #[cfg(not(feature = "hooks"))]
        let res: Result<Option<Violation>, String> = {
            let _ = (&mut fnv, &mut states);
            Err("SIM-HARNESS: c11 needs the hooked build".to_string())
        };
        let violation = match res {
            Ok(v) => v,
            Err(p) => Some(Violation { class: format!("panic:{}", panic_class(&p)), detail: format!("panic: {p}") }),
        };
        let mut n = h.start;
        let mut crossed = false;
        let mut pieces = 0;
        for op in &h.ops {
            let b = n;
            match op {
                Op::Cont(l) => n += l,
                Op::Arb { len, .. } => n += *len as u64,
                _ => {}
            }
            if n > b {
                pieces += 1;
            }
            for mark in [MAX_INPUT, P32 - 4, P32] {
                if (b < mark && n >= mark) || n == mark {
                    crossed = true;
                }
            }
        }
        Outcome { violation, digest: fnv.finish(), nontrivial: crossed || pieces >= 2, states }
    }
    fn shrink(&self, h: &Hist) -> Vec<Hist> {
        let mut out = Vec::new();
        let n = h.ops.len();
        if n > 1 {
            let mut a = h.clone();
            a.ops.truncate(n / 2);
            out.push(a);
        }
        for i in 0..n {
            let mut c = h.clone();
            c.ops.remove(i);
            out.push(c);
        }
        for (i, op) in h.ops.iter().enumerate() {
            match op {
                Op::Cont(l) => {
                    for nl in [0u64, 1, 4, 5, l / 2, l.saturating_sub(1)] {
                        if nl < *l {
                            let mut c = h.clone();
                            c.ops[i] = Op::Cont(nl);
                            out.push(c);
                        }
                    }
                }
                Op::Arb { seed, len } => {
                    if *len > 1 {
                        let mut c = h.clone();
                        c.ops[i] = Op::Arb { seed: *seed, len: len / 2 };
                        out.push(c);
                    }
                    let mut c = h.clone();
                    c.ops[i] = Op::Cont(*len as u64);
                    out.push(c);
                }
                Op::FinalizeAll => {
                    let mut c = h.clone();
                    c.ops[i] = Op::Finalize(30);
                    out.push(c);
                }
                _ => {}
            }
        }
        if h.pattern.len() > 1 {
            let mut c = h.clone();
            c.pattern.truncate(h.pattern.len() / 2);
            out.push(c);
            let mut c = h.clone();
            c.pattern = vec![h.pattern[0]];
            out.push(c);
        } else if h.pattern != vec![0x41] {
            let mut c = h.clone();
            c.pattern = vec![0x41];
            out.push(c);
        }
        for s in [MAX_INPUT, MAX_INPUT - 1, P32 - 5, P32 - 1, 8, h.start + 1] {
            if s != h.start && s < P32 {
                let mut c = h.clone();
                c.start = s;
                out.push(c);
            }
        }
        if h.variant != 1 {
            let mut c = h.clone();
            c.variant = 1;
            out.push(c);
        }
        out
    }
    fn to_json(&self, h: &Hist) -> Value {
        let ops: Vec<String> = h
            .ops
            .iter()
            .map(|o| match o {
                Op::Cont(l) => format!("Cont({l})"),
                Op::Arb { seed, len } => format!("Arb({seed},{len})"),
                Op::Empty => "Empty()".into(),
                Op::Finalize(o) => format!("Finalize({o})"),
                Op::FinalizeAll => "FinalizeAll()".into(),
                Op::Len => "Len()".into(),
                Op::Clone => "Clone()".into(),
            })
            .collect();
        json!({"variant": VARIANT_NAMES[h.variant as usize], "variant_id": h.variant, "pattern": hex(&h.pattern), "start": h.start.to_string(), "ops": ops, "cpu": h.cpu,
               "legend": "the generator starts with the state of `start` bytes of the periodic stream; Cont(n) continues that stream by n bytes; Arb(seed,n) feeds n seeded random bytes"})
    }
    fn from_json(&self, v: &Value) -> Result<Hist, String> {
        let mut ops = Vec::new();
        for e in v["ops"].as_array().ok_or("ops")? {
            let s = e.as_str().ok_or("op")?;
            let a = s.find('(').ok_or("(")?;
            let args: Vec<u64> = s[a + 1..s.len() - 1].split(',').filter(|x| !x.is_empty()).map(|x| x.trim().parse::<u64>().map_err(|e| e.to_string())).collect::<Result<_, _>>()?;
            ops.push(match (&s[..a], args.len()) {
                ("Cont", 1) => Op::Cont(args[0]),
                ("Arb", 2) => Op::Arb { seed: args[0], len: args[1] as u32 },
                ("Empty", 0) => Op::Empty,
                ("Finalize", 1) => Op::Finalize(args[0] as u8),
                ("FinalizeAll", 0) => Op::FinalizeAll,
                ("Len", 0) => Op::Len,
                ("Clone", 0) => Op::Clone,
                _ => return Err(format!("bad op {s}")),
            });
        }
        Ok(Hist {
            variant: v["variant_id"].as_u64().ok_or("variant_id")? as u8,
            pattern: unhex(v["pattern"].as_str().ok_or("pattern")?)?,
            start: v["start"].as_str().ok_or("start")?.parse::<u64>().map_err(|e| e.to_string())?,
            ops,
            cpu: v["cpu"].as_u64().unwrap_or(3) as u8,
        })
    }
}

// ------------------------------------------------------------------------------------------------
// c11small: model vs implementation on small real inputs; fast-forward vs direct simulation
// ------------------------------------------------------------------------------------------------
#[derive(Clone, Debug, Hash, PartialEq, Eq)]
pub struct SmallHist {
    pub variant: u8,
    pub data: DataDesc,
    pub cuts: Vec<u32>,
    /// also check Model::at_offset(pattern, len) against direct stepping when data is periodic
    pub ff: bool,
}
pub struct C11Small;

fn run_small<K: Kind>(h: &SmallHist, st: &mut Stats, fnv: &mut Fnv) -> Option<Violation> {
    let data = h.data.bytes();
    let mut g = K::new_gen();
    let mut m = Model::new(VARIANTS[K::ID as usize]);
    let mut pos = 0usize;
    for &c in &h.cuts {
        let end = (pos + c as usize).min(data.len());
        g.update(&data[pos..end]);
        m.feed(&data[pos..end]);
        pos = end;
    }
    g.update(&data[pos..]);
    m.feed(&data[pos..]);
    let all: Vec<u8> = (0..32).collect();
    if let Some(v) = compare::<K>(&g, &m, &all, fnv, st) {
        return Some(v);
    }
    if let Ok(s) = m.finalize(MOpts::from_bits(30)) {
        // the length code of a generated hash is the code of the number of bytes fed
        let code = Model::length_code(m.n).unwrap();
        let hexcode = format!("{:X}{:X}", code & 15, code >> 4);
        let off = 2 + 2 * VARIANTS[K::ID as usize].cksum;
        if s[off..off + 2] != hexcode {
            return Some(Violation { class: "harness-model-length-code".into(), detail: "model inconsistency".into() });
        }
    }
    if h.ff {
        if let DataDesc::Periodic { pattern, len } = &h.data {
            if !pattern.is_empty() {
                st.hit("probe.fast_forward_vs_direct");
                match Model::at_offset(VARIANTS[K::ID as usize], pattern, *len as u64, JUMP_CAP) {
                    Some(j) if j == m => {}
                    Some(j) => {
                        return Some(Violation {
                            class: "harness-fast-forward-mismatch".into(),
                            detail: format!("fast-forward to {} bytes differs from direct simulation: ck {:?} vs {:?}", len, j.ck, m.ck),
                        })
                    }
                    None => st.hit("probe.checksum_orbit_cap_hit"),
                }
            }
        }
    }
    None
}

impl Scenario for C11Small {
    type Hist = SmallHist;
    fn name(&self) -> &'static str {
        "c11small"
    }
    fn property(&self) -> &'static str {
        "C11"
    }
    fn rule(&self) -> &'static str {
        "history = (variant, data descriptor, cut points); distinct = distinct history digests; non-trivial = at least 5 bytes fed; \
         compares the reference model with the implementation under all 32 option settings, and the model's clock jump with direct stepping"
    }
    fn generate(&self, r: &mut Rng, _index: u64) -> SmallHist {
        let len = if r.chance(1, 20) { r.range(65536, 400_000) as usize } else { draw_small_len(r) };
        let data = draw_data(r, len);
        let ncuts = r.below(5);
        let cuts = (0..ncuts).map(|_| r.range(0, (len as u64 / 2).max(6)) as u32).collect();
        SmallHist { variant: r.below(5) as u8, data, cuts, ff: true }
    }
    fn execute(&self, h: &SmallHist, st: &mut Stats) -> Outcome {
        let mut fnv = Fnv::new();
        st.hit("runs");
        let res = guarded(|| with_kind!(h.variant, K => run_small::<K>(h, st, &mut fnv)));
        let violation = match res {
            Ok(v) => v,
            Err(p) => Some(Violation { class: format!("panic:{}", panic_class(&p)), detail: format!("panic: {p}") }),
        };
        Outcome { violation, digest: fnv.finish(), nontrivial: h.data.len() >= 5, states: vec![(h.variant as u64) << 8 | (h.data.len().min(200) as u64)] }
    }
    fn shrink(&self, h: &SmallHist) -> Vec<SmallHist> {
        let mut out = Vec::new();
        for i in 0..h.cuts.len() {
            let mut c = h.clone();
            c.cuts.remove(i);
            out.push(c);
        }
        for d in h.data.shrink() {
            let mut c = h.clone();
            c.data = d;
            out.push(c);
        }
        if h.variant != 1 {
            let mut c = h.clone();
            c.variant = 1;
            out.push(c);
        }
        out
    }
    fn to_json(&self, h: &SmallHist) -> Value {
        json!({"variant": VARIANT_NAMES[h.variant as usize], "variant_id": h.variant, "data": h.data.to_json(), "cuts": h.cuts, "ff": h.ff})
    }
    fn from_json(&self, v: &Value) -> Result<SmallHist, String> {
        Ok(SmallHist {
            variant: v["variant_id"].as_u64().ok_or("variant_id")? as u8,
            data: DataDesc::from_json(&v["data"])?,
            cuts: v["cuts"].as_array().ok_or("cuts")?.iter().map(|x| x.as_u64().unwrap_or(0) as u32).collect(),
            ff: v["ff"].as_bool().unwrap_or(true),
        })
    }
}
