//! A seeded operation sequence over the whole public API whose *transcript* (API-observable results
//! only) must not depend on the build configuration, the SIMD backend, the simulated CPU or the thread
//! that happens to make the first call (C07), and whose execution must be UB-free (C17) and
//! allocation-free (C18).

use crate::data::{draw_data, draw_small_len, hex, unhex, DataDesc};
use crate::kinds::{options, render, Kind};
use crate::prng::Rng;
use crate::with_kind;
use serde_json::{json, Value};
use tlsh::hash::body::FuzzyHashBody;
use tlsh::hash::checksum::FuzzyHashChecksum;
use tlsh::{ComparisonConfiguration, FuzzyHashType, GeneratorType, HexStringPrefix};

#[derive(Clone, Debug, Hash, PartialEq, Eq)]
pub enum WOp {
    /// generate from data in up to three pieces, finalize with option bits `o`
    Gen { v: u8, data: DataDesc, cut: u32, o: u8 },
    /// parse the hex form of the hash with binary form `raw`, after the given text edits
    Parse { v: u8, raw: Vec<u8>, edits: Vec<(u16, u8)>, mode: u8, lower: bool, strip: bool, resize: i8 },
    /// binary round trip + accessors
    Binary { v: u8, raw: Vec<u8>, len_delta: i8 },
    /// store_into_str_bytes / store_into_bytes into a buffer of (required + delta) bytes, Display
    Format { v: u8, raw: Vec<u8>, delta: i8, prefix: bool },
    /// compare_with_config
    Compare { v: u8, a: Vec<u8>, b: Vec<u8>, nolen: bool },
    /// max_distance for both modes
    MaxDist { v: u8 },
    /// length code of a 32-bit length: FuzzyHashLengthEncoding::new / try_from / range / is_valid, DataLengthValidity
    Length { v: u8, len: u32 },
    /// (hooked builds only) finalize a generator whose bucket counts are given explicitly: values that only
    /// multi-GiB inputs reach (>= 2^24, >= 2^31, near 2^32) and ties at the quartiles, through the state seam
    StateFin { v: u8, class: u8, seed: u64, n: u32, o: u8 },
}

const BODY_CLASSES: [&[u8]; 6] = [
    &[0x00, 0xFF],
    &[0x55, 0xAA],
    &[0x00, 0x55, 0xAA, 0xFF],
    &[0x1B, 0xE4, 0xB1, 0x4E],
    &[0x03, 0x0C, 0x30, 0xC0, 0x00],
    &[0x01, 0x02, 0x04, 0x08, 0x10, 0x20, 0x40, 0x80, 0xFE, 0x7F],
];

pub fn draw_raw(r: &mut Rng) -> Vec<u8> {
    let mut v = vec![0u8; 69];
    match r.below(10) {
        0..=4 => r.fill(&mut v),
        5..=8 => {
            // adversarial neighbouring-dibit patterns in the body, random header
            r.fill(&mut v[..5]);
            let class = *r.pick(&BODY_CLASSES);
            for b in v[5..].iter_mut() {
                *b = *r.pick(class);
            }
        }
        _ => {
            let b = *r.pick(&[0u8, 0xFF, 0x55, 0xAA]);
            v.iter_mut().for_each(|x| *x = b);
        }
    }
    v
}

pub fn draw_op(r: &mut Rng) -> WOp {
    draw_op_with(r, cfg!(feature = "hooks"))
}

/// `allow_state`: may draw StateFin ops (needs the hooked build). The build-matrix transcript passes false so that
/// hooked and unhooked builds execute the same op sequence.
pub fn draw_op_with(r: &mut Rng, allow_state: bool) -> WOp {
    let v = r.below(5) as u8;
    match r.below(100) {
        0..=24 => {
            let len = match r.below(10) {
                0..=6 => draw_small_len(r).min(3000),
                7..=8 => draw_small_len(r),
                _ => {
                    if crate::data::small() {
                        draw_small_len(r)
                    } else {
                        r.range(65536, 200_000) as usize
                    }
                }
            };
            let data = if r.chance(1, 6) {
                // equal-bucket / quartile-tie inputs stress the strict '>' of the aggregation backends
                DataDesc::Periodic { pattern: (0..r.range(5, 40)).map(|_| r.next_u64() as u8).collect(), len }
            } else {
                draw_data(r, len)
            };
            WOp::Gen { v, data, cut: r.below(len as u64 + 1) as u32, o: if r.chance(2, 3) { *r.pick(&[30u8, 28]) } else { r.below(32) as u8 } }
        }
        25..=44 => {
            let mut edits = Vec::new();
            if r.chance(1, 2) {
                for _ in 0..r.range(1, 2) {
                    // the replacement byte: a boundary character, any byte at all, or a valid digit with one bit flipped
                    // (what a damaged medium does to stored text)
                    let b = match r.below(3) {
                        0 => *r.pick(&[b'g', b'G', b'@', b'/', b':', b'`', b'f', b'F', b'0', b'9', b'a', b'A', 0x80, 0xff, b' ', b'T', b't', b'1', b'2']),
                        1 => r.next_u64() as u8,
                        _ => *r.pick(b"0123456789abcdefABCDEF") ^ (1u8 << r.below(8)),
                    };
                    edits.push((r.below(140) as u16, b));
                }
            }
            WOp::Parse { v, raw: draw_raw(r), edits, mode: r.below(3) as u8, lower: r.chance(1, 3), strip: r.chance(1, 3), resize: if r.chance(1, 4) { *r.pick(&[-3i8, -2, -1, 1, 2, 3, -128, 100]) } else { 0 } }
        }
        45..=54 => WOp::Binary { v, raw: draw_raw(r), len_delta: *r.pick(&[0i8, 0, 0, 0, -1, 1, -5, 3]) },
        55..=69 => WOp::Format { v, raw: draw_raw(r), delta: *r.pick(&[0i8, 0, 0, 1, -1, 7, -2, 64, -64]), prefix: r.chance(1, 2) },
        70..=97 => {
            let a = draw_raw(r);
            let b = if r.chance(1, 4) {
                let mut b = a.clone();
                let i = r.below(b.len() as u64) as usize;
                b[i] ^= 1 << r.below(8);
                b
            } else {
                draw_raw(r)
            };
            WOp::Compare { v, a, b, nolen: r.chance(1, 3) }
        }
        98 => WOp::MaxDist { v },
        _ => {
            if allow_state && r.chance(2, 3) {
                WOp::StateFin { v, class: r.below(10) as u8, seed: r.next_u64(), n: *r.pick(&[50u32, 1000, 1 << 24, 1 << 31, 4_224_281_216, 4_000_000_000]), o: if r.chance(1, 2) { 30 } else { 28 } }
            } else {
                let len = match r.below(6) {
                    0 => r.below(700),
                    1 => r.next_u64() & 0xffff_ffff,
                    2 => 1u64 << r.below(32),
                    3 => (1u64 << r.below(32)).wrapping_sub(1),
                    4 => 4_224_281_216 - 2 + r.below(5),
                    _ => *r.pick(&[0u64, 1, 2, 3, 5, 7, 11, 17, 25, 38, 57, 656, 657, 3171, 3172, 4_224_281_216, 4_294_967_295]),
                };
                WOp::Length { v, len: len as u32 }
            }
        }
    }
}

/// Explicit bucket arrays for StateFin.
pub fn state_buckets(class: u8, seed: u64) -> [u32; 256] {
    let mut r = Rng::new(seed);
    let mut b = [0u32; 256];
    let base: u64 = match class {
        0 => 100,
        1 => 1 << 24,
        2 => (1 << 31) - 8,
        3 => (1u64 << 32) - 64,
        4 => 1 << 31,
        5 => 40_000_000,
        // SIMD lane-width boundaries: values straddling i8 / u8 / i16 / u16 limits (narrowed compares, packs with saturation)
        6 => 32767 - 8,
        7 => 65535 - 8,
        8 => 255 - 8,
        _ => 127 - 8,
    };
    for x in b.iter_mut() {
        let v = match r.below(8) {
            0 => 0,
            1..=3 => base + r.below(16),          // many ties around the quartiles
            4 => base.wrapping_sub(r.below(16)),
            5 => r.next_u64() & 0xffff_ffff,
            6 => base,
            _ => base / 2 + r.below(5),
        };
        *x = v as u32;
    }
    b
}

fn hash_of<K: Kind>(raw: &[u8]) -> Option<K::H> {
    let n = <K::H as FuzzyHashType>::SIZE_IN_BYTES;
    let mut b = vec![0u8; n];
    for (i, x) in b.iter_mut().enumerate() {
        *x = raw.get(i).copied().unwrap_or(0);
    }
    <K::H as TryFrom<&[u8]>>::try_from(&b[..]).ok()
}

fn exec<K: Kind>(op: &WOp) -> String {
    match op {
        WOp::Gen { data, cut, o, .. } => {
            let d = data.bytes();
            let c = (*cut as usize).min(d.len());
            let mut g = K::new_gen();
            g.update(&d[..c]);
            g.update(&d[c..]);
            format!("gen {} len={:?}", render(&g.finalize_with_options(&options(*o))), g.processed_len())
        }
        WOp::Parse { raw, edits, mode, lower, strip, resize, .. } => {
            let Some(h) = hash_of::<K>(raw) else { return "parse: raw rejected".into() };
            let mut s = h.to_string().into_bytes();
            if *lower {
                for b in s.iter_mut().skip(2) {
                    *b = b.to_ascii_lowercase();
                }
            }
            if *strip {
                s.drain(..2);
            }
            for (p, b) in edits {
                if !s.is_empty() {
                    let i = *p as usize % s.len();
                    s[i] = *b;
                }
            }
            if *resize < 0 {
                let keep = s.len().saturating_sub((-(*resize as i32)) as usize);
                s.truncate(keep);
            } else {
                for _ in 0..*resize {
                    s.push(b'0');
                }
            }
            let mode = match mode {
                0 => None,
                1 => Some(HexStringPrefix::Empty),
                _ => Some(HexStringPrefix::WithVersion),
            };
            let a = match <K::H as FuzzyHashType>::from_str_bytes(&s, mode) {
                Ok(x) => format!("parse Ok {}", x),
                Err(e) => format!("parse Err {e:?}"),
            };
            // the &str entry points, when the bytes are UTF-8
            match core::str::from_utf8(&s) {
                Ok(t) => {
                    let b = <K::H as FuzzyHashType>::from_str_with(t, mode).map(|x| x.to_string());
                    let c = <K::H as core::str::FromStr>::from_str(t).map(|x| x.to_string());
                    format!("{a} | with={b:?} | fromstr={c:?}")
                }
                Err(_) => a,
            }
        }
        WOp::Binary { raw, len_delta, .. } => {
            let n = <K::H as FuzzyHashType>::SIZE_IN_BYTES as i64 + *len_delta as i64;
            let mut b = vec![0u8; n.max(0) as usize];
            for (i, x) in b.iter_mut().enumerate() {
                *x = raw.get(i).copied().unwrap_or(0);
            }
            match <K::H as TryFrom<&[u8]>>::try_from(&b[..]) {
                Err(e) => format!("binary Err {e:?}"),
                Ok(mut h) => {
                    let mut out = [0u8; 80];
                    let k = h.store_into_bytes(&mut out).unwrap_or(0);
                    let q: Vec<u8> = [0usize, 1, 2, 3, 4, 5, K::BUCKETS / 2, K::BUCKETS - 2, K::BUCKETS - 1].iter().map(|&i| h.body().quartile(i)).collect();
                    let mut ck = [0u8; 3];
                    let nck = K::ck_data(&h, &mut ck);
                    let mut bd = [0u8; 64];
                    let nbd = K::body_data(&h, &mut bd);
                    let s = format!(
                        "binary Ok {} ck={} cv={} l={} lv={} q={}/{}/{} body={} quart={:?}",
                        hex(&out[..k]),
                        hex(&ck[..nck]),
                        h.checksum().is_valid(),
                        h.length().value(),
                        h.length().is_valid(),
                        h.qratios().value(),
                        h.qratios().q1ratio(),
                        h.qratios().q2ratio(),
                        hex(&bd[..nbd]),
                        q
                    );
                    h.clear_checksum();
                    format!("{s} cleared={}", h)
                }
            }
        }
        WOp::Format { raw, delta, prefix, .. } => {
            let Some(h) = hash_of::<K>(raw) else { return "format: raw rejected".into() };
            let need = if *prefix { <K::H as FuzzyHashType>::LEN_IN_STR } else { <K::H as FuzzyHashType>::LEN_IN_STR_EXCEPT_PREFIX };
            let n = (need as i64 + *delta as i64).max(0) as usize;
            let mut buf = vec![0x7eu8; n];
            let r1 = h.store_into_str_bytes(&mut buf, if *prefix { HexStringPrefix::WithVersion } else { HexStringPrefix::Empty });
            let nb = (<K::H as FuzzyHashType>::SIZE_IN_BYTES as i64 + *delta as i64).max(0) as usize;
            let mut bb = vec![0x7eu8; nb];
            let r2 = h.store_into_bytes(&mut bb);
            // Display with width, fill, alignment and precision: whatever the behaviour is, every configuration must share it
            let fancy = match (*delta as i32).rem_euclid(5) {
                0 => format!("{h:>80}"),
                1 => format!("{h:<76}|"),
                2 => format!("{h:.8}"),
                3 => format!("{h:*^100}"),
                _ => format!("{h:>10.40}"),
            };
            // ... and with a run-time width and precision from 0 to beyond every text length (0..=255 / 0..=160)
            let dyn_prec = raw.first().copied().unwrap_or(0) as usize;
            let dyn_width = (raw.get(1).copied().unwrap_or(0) as usize) % 161;
            let fancy = format!("{fancy} | {:.dyn_prec$} | {:<dyn_width$.dyn_prec$}", h, h);
            // Display into a caller-supplied writer that fails once its capacity is used up (a caller-side fault):
            // Err must come back without a panic, and whatever the writer accepted is a prefix of the full text
            let full = h.to_string();
            let cap = match (*delta as i32).rem_euclid(4) {
                0 => 0,
                1 => full.len() - 1,
                2 => (raw.first().copied().unwrap_or(0) as usize) % (full.len() + 1),
                _ => full.len(),
            };
            let mut lw = LimitedWriter { cap, got: String::new(), calls: 0 };
            let lr = { use std::fmt::Write; write!(lw, "{h}") };
            let mut lw2 = LimitedWriter { cap: cap + 20, got: String::new(), calls: 0 };
            let lr2 = { use std::fmt::Write; write!(lw2, "{h:>90}") };
            if !full.starts_with(&lw.got) || (lr.is_ok() && lw.got != full) || (lr.is_err() && cap >= full.len()) || lw2.got.trim_start() != &full[..lw2.got.trim_start().len()] {
                panic!("SIM-ORACLE display-to-failing-writer: capacity {cap}, result {lr:?}, accepted `{}` / `{}`, full text `{full}`", lw.got, lw2.got);
            }
            format!("format {:?} {} | {:?} {} | {} | {fancy} | limw {cap} {lr:?} {} {lr2:?} {}", r1, hex(&buf), r2, hex(&bb), h, lw.got.len(), lw2.got.len())
        }
        WOp::Compare { a, b, nolen, .. } => {
            let (Some(x), Some(y)) = (hash_of::<K>(a), hash_of::<K>(b)) else { return "compare: raw rejected".into() };
            let cfg = if *nolen { ComparisonConfiguration::NoLength } else { ComparisonConfiguration::Default };
            let sx = x.to_string();
            let sy = y.to_string();
            let easy = if K::ID == 1 { format!("{:?}", tlsh::compare(&sx, &sy)) } else { String::new() };
            format!(
                "compare {} {} body={} ck={} q={} l={} {easy}",
                x.compare_with_config(&y, cfg),
                y.compare_with_config(&x, cfg),
                x.body().compare(y.body()),
                x.checksum().compare(y.checksum()),
                x.qratios().compare(y.qratios()),
                x.length().compare(y.length())
            )
        }
        WOp::MaxDist { .. } => format!(
            "maxdist {} {}",
            <K::H as FuzzyHashType>::max_distance(ComparisonConfiguration::Default),
            <K::H as FuzzyHashType>::max_distance(ComparisonConfiguration::NoLength)
        ),
        WOp::Length { len, .. } => {
            use tlsh::length::{DataLengthProcessingMode, DataLengthValidity, FuzzyHashLengthEncoding};
            let e = FuzzyHashLengthEncoding::new(*len);
            let t = FuzzyHashLengthEncoding::try_from(*len);
            let v = match K::BUCKETS {
                48 => DataLengthValidity::new::<48>(*len),
                128 => DataLengthValidity::new::<128>(*len),
                _ => DataLengthValidity::new::<256>(*len),
            };
            format!(
                "length {:?} {:?} range={:?} valid={:?} {:?} err={} errc={}",
                e.map(|x| x.value()),
                t.map(|x| x.value()),
                e.and_then(|x| x.range()),
                e.map(|x| x.is_valid()),
                v,
                v.is_err(),
                v.is_err_on(DataLengthProcessingMode::Conservative)
            )
        }
        WOp::StateFin { class, seed, n, o, .. } => state_fin::<K>(*class, *seed, *n, *o),
    }
}

/// fmt::Write that refuses everything beyond `cap` bytes
struct LimitedWriter {
    cap: usize,
    got: String,
    calls: u32,
}
impl std::fmt::Write for LimitedWriter {
    fn write_str(&mut self, s: &str) -> std::fmt::Result {
        self.calls += 1;
        if self.got.len() + s.len() > self.cap {
            return Err(std::fmt::Error);
        }
        self.got.push_str(s);
        Ok(())
    }
}

#[cfg(feature = "hooks")]
fn state_fin<K: Kind>(class: u8, seed: u64, n: u32, o: u8) -> String {
    // concrete dispatch: the VerifState bound cannot be expressed through `Kind` without the hooked build
    use tlsh::generate::{Generator, VerifState};
    let b = state_buckets(class, seed);
    let len = n.saturating_sub(4);
    let tail = [1u8, 2, 3, 4];
    let ck = [(seed >> 8) as u8 % 49, (seed >> 16) as u8, (seed >> 24) as u8];
    macro_rules! go {
        ($t:ty) => {{
            let g = <Generator<$t> as VerifState>::verif_from_state(&b, len, tail, 4, ck);
            format!("statefin {} | {}", render(&g.finalize_with_options(&options(o))), render(&g.finalize_with_options(&options(o ^ 2))))
        }};
    }
    match K::ID {
        0 => go!(tlsh::hashes::Short),
        1 => go!(tlsh::hashes::Normal),
        2 => go!(tlsh::hashes::NormalWithLongChecksum),
        3 => go!(tlsh::hashes::Long),
        _ => go!(tlsh::hashes::LongWithLongChecksum),
    }
}
#[cfg(not(feature = "hooks"))]
fn state_fin<K: Kind>(_class: u8, _seed: u64, _n: u32, _o: u8) -> String {
    "statefin: needs the hooked build".into()
}

pub fn variant_of(op: &WOp) -> u8 {
    match op {
        WOp::Gen { v, .. }
        | WOp::Parse { v, .. }
        | WOp::Binary { v, .. }
        | WOp::Format { v, .. }
        | WOp::Compare { v, .. }
        | WOp::MaxDist { v }
        | WOp::Length { v, .. }
        | WOp::StateFin { v, .. } => *v,
    }
}

pub fn exec_op(op: &WOp) -> String {
    let v = variant_of(op);
    with_kind!(v, K => exec::<K>(op))
}

/// Which dispatch cells an op touches (for reach probes): bit0 agg48, bit1 agg128, bit2 agg256, bit3 dist32, bit4 dist64
pub fn cells_of(op: &WOp) -> u8 {
    let v = variant_of(op);
    match op {
        WOp::Gen { .. } | WOp::StateFin { .. } => match v {
            0 => 1,
            1 | 2 => 2,
            _ => 4,
        },
        WOp::Compare { .. } => match v {
            0 => 0,
            1 | 2 => 8,
            _ => 16,
        },
        _ => 0,
    }
}

pub fn op_json(op: &WOp) -> Value {
    match op {
        WOp::Gen { v, data, cut, o } => json!({"op":"gen","v":v,"data":data.to_json(),"cut":cut,"o":o}),
        WOp::Parse { v, raw, edits, mode, lower, strip, resize } => {
            json!({"op":"parse","v":v,"raw":hex(raw),"edits":edits.iter().map(|(p,b)| vec![*p as u64,*b as u64]).collect::<Vec<_>>(),"mode":mode,"lower":lower,"strip":strip,"resize":resize})
        }
        WOp::Binary { v, raw, len_delta } => json!({"op":"binary","v":v,"raw":hex(raw),"len_delta":len_delta}),
        WOp::Format { v, raw, delta, prefix } => json!({"op":"format","v":v,"raw":hex(raw),"delta":delta,"prefix":prefix}),
        WOp::Compare { v, a, b, nolen } => json!({"op":"compare","v":v,"a":hex(a),"b":hex(b),"nolen":nolen}),
        WOp::MaxDist { v } => json!({"op":"maxdist","v":v}),
        WOp::Length { v, len } => json!({"op":"length","v":v,"len":len}),
        WOp::StateFin { v, class, seed, n, o } => json!({"op":"statefin","v":v,"class":class,"seed":seed.to_string(),"n":n,"o":o}),
    }
}
pub fn op_from(j: &Value) -> Result<WOp, String> {
    let v = j["v"].as_u64().ok_or("v")? as u8;
    let raw = |k: &str| -> Result<Vec<u8>, String> { unhex(j[k].as_str().ok_or(k.to_string())?) };
    Ok(match j["op"].as_str().ok_or("op")? {
        "gen" => WOp::Gen { v, data: DataDesc::from_json(&j["data"])?, cut: j["cut"].as_u64().ok_or("cut")? as u32, o: j["o"].as_u64().ok_or("o")? as u8 },
        "parse" => WOp::Parse {
            v,
            raw: raw("raw")?,
            edits: j["edits"].as_array().ok_or("edits")?.iter().map(|e| (e[0].as_u64().unwrap_or(0) as u16, e[1].as_u64().unwrap_or(0) as u8)).collect(),
            mode: j["mode"].as_u64().ok_or("mode")? as u8,
            lower: j["lower"].as_bool().ok_or("lower")?,
            strip: j["strip"].as_bool().ok_or("strip")?,
            resize: j["resize"].as_i64().unwrap_or(0) as i8,
        },
        "binary" => WOp::Binary { v, raw: raw("raw")?, len_delta: j["len_delta"].as_i64().ok_or("len_delta")? as i8 },
        "format" => WOp::Format { v, raw: raw("raw")?, delta: j["delta"].as_i64().ok_or("delta")? as i8, prefix: j["prefix"].as_bool().ok_or("prefix")? },
        "compare" => WOp::Compare { v, a: raw("a")?, b: raw("b")?, nolen: j["nolen"].as_bool().ok_or("nolen")? },
        "maxdist" => WOp::MaxDist { v },
        "length" => WOp::Length { v, len: j["len"].as_u64().ok_or("len")? as u32 },
        "statefin" => WOp::StateFin {
            v,
            class: j["class"].as_u64().ok_or("class")? as u8,
            seed: j["seed"].as_str().ok_or("seed")?.parse::<u64>().map_err(|e| e.to_string())?,
            n: j["n"].as_u64().ok_or("n")? as u32,
            o: j["o"].as_u64().ok_or("o")? as u8,
        },
        o => return Err(format!("unknown op {o}")),
    })
}

/// Shrink candidates for one op (simpler arguments).
pub fn shrink_op(op: &WOp) -> Vec<WOp> {
    let mut out = Vec::new();
    match op {
        WOp::Gen { v, data, cut, o } => {
            for d in data.shrink() {
                out.push(WOp::Gen { v: *v, data: d, cut: 0, o: *o });
            }
            if *cut != 0 {
                out.push(WOp::Gen { v: *v, data: data.clone(), cut: 0, o: *o });
            }
            if *o != 30 {
                out.push(WOp::Gen { v: *v, data: data.clone(), cut: *cut, o: 30 });
            }
        }
        WOp::Compare { v, a, b, nolen } => {
            for (which, x) in [(0, a), (1, b)] {
                for i in 0..x.len() {
                    if x[i] != 0 {
                        let mut nx = x.clone();
                        nx[i] = 0;
                        out.push(if which == 0 { WOp::Compare { v: *v, a: nx, b: b.clone(), nolen: *nolen } } else { WOp::Compare { v: *v, a: a.clone(), b: nx, nolen: *nolen } });
                    }
                }
            }
        }
        WOp::Parse { v, raw, edits, mode, lower, strip, resize } => {
            for i in 0..edits.len() {
                let mut e = edits.clone();
                e.remove(i);
                out.push(WOp::Parse { v: *v, raw: raw.clone(), edits: e, mode: *mode, lower: *lower, strip: *strip, resize: *resize });
            }
            if raw.iter().any(|&b| b != 0) {
                out.push(WOp::Parse { v: *v, raw: vec![0; 69], edits: edits.clone(), mode: *mode, lower: *lower, strip: *strip, resize: *resize });
            }
            if *resize != 0 {
                out.push(WOp::Parse { v: *v, raw: raw.clone(), edits: edits.clone(), mode: *mode, lower: *lower, strip: *strip, resize: 0 });
            }
        }
        WOp::Format { v, raw, delta, prefix } => {
            if raw.iter().any(|&b| b != 0) {
                out.push(WOp::Format { v: *v, raw: vec![0; 69], delta: *delta, prefix: *prefix });
            }
        }
        WOp::Binary { v, raw, len_delta } => {
            if raw.iter().any(|&b| b != 0) {
                out.push(WOp::Binary { v: *v, raw: vec![0; 69], len_delta: *len_delta });
            }
        }
        WOp::MaxDist { .. } | WOp::Length { .. } | WOp::StateFin { .. } => {}
    }
    out
}

/// Objects shared by all caller threads of a race scenario: three generators (48 / 128 / 256 buckets) that have been
/// fed seeded data.  `finalize_with_options` takes `&self`, so many threads may finalize the same generator at once;
/// every such call must return what a sequential call returns.
pub struct Shared {
    pub short: tlsh::generate::Generator<tlsh::hashes::Short>,
    pub normal: tlsh::generate::Generator<tlsh::hashes::NormalWithLongChecksum>,
    pub long: tlsh::generate::Generator<tlsh::hashes::Long>,
}
impl Shared {
    pub fn new(seed: u64) -> Shared {
        let mut r = Rng::new(seed);
        let mut s = Shared { short: Default::default(), normal: Default::default(), long: Default::default() };
        let mut buf = vec![0u8; r.range(60, 400) as usize];
        r.fill(&mut buf);
        s.short.update(&buf);
        s.normal.update(&buf);
        // the long one gets low-entropy data so that the weak-bucket gates are exercised, too
        let low: Vec<u8> = (0..buf.len()).map(|i| b"ABCDE"[i % 5]).collect(); // periodic: three quarters of the buckets stay empty
        s.long.update(if r.chance(1, 2) { &buf } else { &low });
        s
    }
    pub fn finalize(&self, which: u8, o: u8) -> String {
        match which % 3 {
            0 => format!("shared0 {}", render(&self.short.finalize_with_options(&options(o)))),
            1 => format!("shared1 {}", render(&self.normal.finalize_with_options(&options(o)))),
            _ => format!("shared2 {}", render(&self.long.finalize_with_options(&options(o)))),
        }
    }
}
