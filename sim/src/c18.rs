//! C18 — core operations never allocate.
//!
//! World: the process's `#[global_allocator]` is owned by the simulator (SimAlloc).  A thread-local
//! *armed* flag is set only around one library call; every alloc/realloc/alloc_zeroed while armed is
//! counted.  In hard-fail mode the allocator returns null while armed, so a hidden allocation turns
//! into an allocation failure (abort) at exactly that call.  All harness memory is allocated before
//! arming.  Negative control in every run: `to_string()` and `hash_stream` must be *seen* allocating.

use crate::data::{draw_data, draw_small_len, hex, unhex, DataDesc};
use crate::framework::{guarded, panic_class, Outcome, Scenario, Stats, Violation};
use crate::kinds::{options, Kind, VARIANT_NAMES};
use crate::prng::{Fnv, Rng};
use crate::with_kind;
use serde_json::{json, Value};
use std::alloc::{GlobalAlloc, Layout, System};
use std::cell::Cell;
use std::sync::atomic::{AtomicBool, Ordering};
use tlsh::hash::body::FuzzyHashBody;
use tlsh::hash::checksum::FuzzyHashChecksum;
use tlsh::{ComparisonConfiguration, FuzzyHashType, GeneratorType, HexStringPrefix};

pub struct SimAlloc;
thread_local! {
    static ARMED: Cell<bool> = const { Cell::new(false) };
    static COUNT: Cell<u64> = const { Cell::new(0) };
    static BYTES: Cell<u64> = const { Cell::new(0) };
}
/// hard-fail mode: allocation *fails* while armed
pub static HARD_FAIL: AtomicBool = AtomicBool::new(false);
/// hard-fail mode only fails requests of at least this size ...
pub static FAIL_MIN_SIZE: std::sync::atomic::AtomicUsize = std::sync::atomic::AtomicUsize::new(0);
/// ... after letting this many such requests through
pub static FAIL_SKIP: std::sync::atomic::AtomicU64 = std::sync::atomic::AtomicU64::new(0);
/// how many requests were refused
pub static FAILED: std::sync::atomic::AtomicU64 = std::sync::atomic::AtomicU64::new(0);

#[inline]
fn note(size: usize) -> bool {
    let armed = ARMED.try_with(|a| a.get()).unwrap_or(false);
    if armed {
        let _ = COUNT.try_with(|c| c.set(c.get() + 1));
        let _ = BYTES.try_with(|c| c.set(c.get() + size as u64));
        if HARD_FAIL.load(Ordering::Relaxed) && size >= FAIL_MIN_SIZE.load(Ordering::Relaxed) {
            if FAIL_SKIP.load(Ordering::Relaxed) > 0 {
                FAIL_SKIP.fetch_sub(1, Ordering::Relaxed);
                return false;
            }
            FAILED.fetch_add(1, Ordering::Relaxed);
            return true;
        }
    }
    false
}

// ---------------------------------------------------------------------------------------------------------------
// Environment seam (alloc world only): the process's `getenv` is the simulator's.  While a window is armed *and* the
// env fault is on, every variable the code asks for "is set" (value "1") -- a knob somebody exported.  Outside armed
// windows, and for the runtime's own RUST_* / MALLOC_* / LD_* / GLIBC_* names, the real environment answers.
// ---------------------------------------------------------------------------------------------------------------
pub static ENV_FAULT: AtomicBool = AtomicBool::new(false);
pub static ENV_QUERIES_ARMED: std::sync::atomic::AtomicU64 = std::sync::atomic::AtomicU64::new(0);
extern "C" {
    static environ: *const *const std::ffi::c_char;
}
/// # Safety
/// C ABI replacement of getenv(3): `name` must be a NUL-terminated string.
#[no_mangle]
pub unsafe extern "C" fn getenv(name: *const std::ffi::c_char) -> *mut std::ffi::c_char {
    if name.is_null() {
        return std::ptr::null_mut();
    }
    let n = std::ffi::CStr::from_ptr(name).to_bytes();
    let mut e = environ;
    if !e.is_null() {
        while !(*e).is_null() {
            let entry = std::ffi::CStr::from_ptr(*e).to_bytes();
            if entry.len() > n.len() && entry[n.len()] == b'=' && &entry[..n.len()] == n {
                return (*e).add(n.len() + 1) as *mut std::ffi::c_char;
            }
            e = e.add(1);
        }
    }
    let armed = ARMED.try_with(|a| a.get()).unwrap_or(false);
    if armed {
        ENV_QUERIES_ARMED.fetch_add(1, Ordering::Relaxed);
        let runtime_name = [&b"RUST"[..], b"MALLOC", b"LD_", b"GLIBC", b"LANG", b"LC_", b"TZ"].iter().any(|p| n.starts_with(p));
        if ENV_FAULT.load(Ordering::Relaxed) && !runtime_name {
            static ONE: [u8; 2] = *b"1\0";
            return ONE.as_ptr() as *mut std::ffi::c_char;
        }
    }
    std::ptr::null_mut()
}
/// skew mode (a legal allocator, round 10): byte buffers (alignment 1, at least SKEW_MIN bytes) are handed out at
/// addresses that are 1 mod 16 -- glibc always returns 16-aligned memory, so code that silently relies on that only
/// meets this allocator here
pub static SKEW: AtomicBool = AtomicBool::new(false);
const SKEW_MIN: usize = 4096;
#[inline]
fn is_skewed(p: *mut u8, l: &Layout) -> bool {
    l.align() == 1 && l.size() >= SKEW_MIN && (p as usize) % 16 == 1
}
#[inline]
unsafe fn skew_alloc(size: usize, zeroed: bool) -> *mut u8 {
    let l2 = Layout::from_size_align_unchecked(size + 16, 16);
    let p = if zeroed { System.alloc_zeroed(l2) } else { System.alloc(l2) };
    if p.is_null() {
        p
    } else {
        p.add(1)
    }
}
unsafe impl GlobalAlloc for SimAlloc {
    unsafe fn alloc(&self, l: Layout) -> *mut u8 {
        if note(l.size()) {
            return std::ptr::null_mut();
        }
        if l.align() == 1 && l.size() >= SKEW_MIN && SKEW.load(Ordering::Relaxed) {
            return skew_alloc(l.size(), false);
        }
        System.alloc(l)
    }
    unsafe fn alloc_zeroed(&self, l: Layout) -> *mut u8 {
        if note(l.size()) {
            return std::ptr::null_mut();
        }
        if l.align() == 1 && l.size() >= SKEW_MIN && SKEW.load(Ordering::Relaxed) {
            return skew_alloc(l.size(), true);
        }
        System.alloc_zeroed(l)
    }
    unsafe fn realloc(&self, p: *mut u8, l: Layout, n: usize) -> *mut u8 {
        if note(n) {
            return std::ptr::null_mut();
        }
        if is_skewed(p, &l) {
            let nl = Layout::from_size_align_unchecked(n, 1);
            let q = if n >= SKEW_MIN { skew_alloc(n, false) } else { System.alloc(nl) };
            if !q.is_null() {
                std::ptr::copy_nonoverlapping(p, q, l.size().min(n));
                System.dealloc(p.sub(1), Layout::from_size_align_unchecked(l.size() + 16, 16));
            }
            return q;
        }
        System.realloc(p, l, n)
    }
    unsafe fn dealloc(&self, p: *mut u8, l: Layout) {
        if is_skewed(p, &l) {
            return System.dealloc(p.sub(1), Layout::from_size_align_unchecked(l.size() + 16, 16));
        }
        System.dealloc(p, l)
    }
}

struct Disarm;
impl Drop for Disarm {
    fn drop(&mut self) {
        let _ = ARMED.try_with(|a| a.set(false));
    }
}
/// Runs `f` with the monitor armed; returns (result, allocations seen).  Disarms on unwind, too.
#[inline]
fn armed<T>(f: impl FnOnce() -> T) -> (T, u64) {
    COUNT.with(|c| c.set(0));
    ARMED.with(|a| a.set(true));
    let guard = Disarm;
    let r = f();
    drop(guard);
    (r, COUNT.with(|c| c.get()))
}

#[derive(Clone, Debug, Hash, PartialEq, Eq)]
pub enum AOp {
    New,
    /// update with data[off..off+len]
    Update { off: u32, len: u32 },
    Finalize(u8),
    Len,
    CloneGen,
    /// from_str_bytes of text form (mode 0 auto, 1 Some(Empty), 2 Some(WithVersion)); edit = optional (pos, byte) making it malformed
    ParseText { mode: u8, strip: bool, edit: Option<(u16, u8)>, cut: u8, lower: bool },
    /// TryFrom<&[u8]> with length SIZE+delta
    ParseBin { delta: i8 },
    StoreBin { delta: i8 },
    StoreStr { prefix: bool, delta: i8 },
    Compare { nolen: bool },
    MaxDist,
    ClearChecksum,
    Accessors,
    Quartile(u8),
    /// tlsh::hash_buf_for (easy function; = new + update + finalize)
    HashBuf,
    /// tlsh::compare_with on the two text forms (easy function; parse + compare), optionally one side malformed
    CompareStr { bad: bool },
    /// Display into a fixed stack buffer (core::fmt::Write): formatting itself must not allocate
    DisplayToStack,
    /// Display of the error values into a fixed stack buffer
    ErrorDisplay,
    /// Clone::clone_from on the generator (in-place clone), PartialEq on hashes / generators, Debug into a stack buffer
    TraitImpls,
}
pub const AOP_KINDS: usize = 19;
fn aop_kind(op: &AOp) -> (usize, &'static str) {
    match op {
        AOp::New => (0, "Generator::new"),
        AOp::Update { .. } => (1, "update"),
        AOp::Finalize(_) => (2, "finalize_with_options"),
        AOp::Len => (3, "processed_len"),
        AOp::CloneGen => (4, "Generator::clone"),
        AOp::ParseText { .. } => (5, "from_str_bytes"),
        AOp::ParseBin { .. } => (6, "TryFrom<&[u8]>"),
        AOp::StoreBin { .. } => (7, "store_into_bytes"),
        AOp::StoreStr { .. } => (8, "store_into_str_bytes"),
        AOp::Compare { .. } => (9, "compare_with_config"),
        AOp::MaxDist => (10, "max_distance"),
        AOp::ClearChecksum => (11, "clear_checksum"),
        AOp::Accessors => (12, "accessors"),
        AOp::Quartile(_) => (13, "quartile"),
        AOp::HashBuf => (14, "hash_buf_for"),
        AOp::CompareStr { .. } => (15, "compare_with"),
        AOp::DisplayToStack => (16, "Display::fmt"),
        AOp::ErrorDisplay => (17, "error Display::fmt"),
        AOp::TraitImpls => (18, "clone_from / PartialEq / Debug"),
    }
}

#[derive(Clone, Debug, Hash, PartialEq, Eq)]
pub struct Hist {
    pub variant: u8,
    pub data: DataDesc,
    pub raw1: Vec<u8>,
    pub raw2: Vec<u8>,
    pub ops: Vec<AOp>,
    /// run the whole sequence on a freshly spawned thread (varies which thread makes the first call)
    pub on_thread: bool,
}

pub struct C18;

fn raw_hash<K: Kind>(raw: &[u8]) -> K::H {
    let n = <K::H as FuzzyHashType>::SIZE_IN_BYTES;
    let mut b = [0u8; 80];
    for i in 0..n {
        b[i] = raw.get(i).copied().unwrap_or(0);
    }
    <K::H as TryFrom<&[u8]>>::try_from(&b[..n]).expect("lenient build accepts any bytes")
}

/// fmt::Write into a fixed buffer (no allocation on the harness side)
struct StackBuf {
    buf: [u8; 200],
    len: usize,
}
impl core::fmt::Write for StackBuf {
    fn write_str(&mut self, s: &str) -> core::fmt::Result {
        let n = s.len().min(self.buf.len() - self.len);
        self.buf[self.len..self.len + n].copy_from_slice(&s.as_bytes()[..n]);
        self.len += n;
        Ok(())
    }
}

struct RunOut {
    violation: Option<Violation>,
    digest: u64,
    states: Vec<u64>,
    armed_calls: u64,
    neg_control_allocs: u64,
}

fn run<K: Kind>(h: &Hist) -> RunOut {
    // ---------- everything the harness needs is allocated here, before any armed window ----------
    let data = h.data.bytes();
    let mut h1 = raw_hash::<K>(&h.raw1);
    let h2 = raw_hash::<K>(&h.raw2);
    let text1: Vec<u8> = h1.to_string().into_bytes();
    let text1s: String = h1.to_string();
    let text2: String = h2.to_string();
    let mut text_bad: String = h2.to_string();
    text_bad.replace_range(5..6, "g");
    let mut text_scratch: Vec<u8> = Vec::with_capacity(200);
    let mut bin = [0u8; 160];
    let mut out = [0u8; 256];
    let mut fnv = Fnv::new();
    let mut states: Vec<u64> = Vec::with_capacity(h.ops.len() + 4);
    let opts: Vec<tlsh::GeneratorOptions> = (0..32u8).map(options).collect();
    let mut g = K::new_gen();
    let mut g2: Option<K::G> = None;
    let mut violation = None;
    let mut armed_calls = 0u64;
    let mut first_seen = [false; AOP_KINDS];
    for (step, op) in h.ops.iter().enumerate() {
        let (kind, name) = aop_kind(op);
        let n: u64 = match op {
            AOp::New => {
                let (ng, n) = armed(K::new_gen);
                g = ng;
                n
            }
            AOp::Update { off, len } => {
                let o = (*off as usize).min(data.len());
                let e = (o + *len as usize).min(data.len());
                let piece = &data[o..e];
                armed(|| g.update(piece)).1
            }
            AOp::Finalize(o) => {
                let (r, n) = armed(|| g.finalize_with_options(&opts[*o as usize % 32]));
                if let Ok(x) = r {
                    h1 = x;
                    fnv.write_u64(1);
                }
                n
            }
            AOp::Len => {
                let (r, n) = armed(|| g.processed_len());
                fnv.write_u64(r.unwrap_or(0) as u64);
                n
            }
            AOp::CloneGen => {
                // the clone is created armed; it is dropped (unarmed) when replaced
                let (c, n) = armed(|| g.clone());
                g2 = Some(c);
                n
            }
            AOp::ParseText { mode, strip, edit, cut, lower } => {
                text_scratch.clear();
                text_scratch.extend_from_slice(&text1);
                if *lower {
                    for b in text_scratch.iter_mut().skip(2) {
                        *b = b.to_ascii_lowercase();
                    }
                }
                if *strip {
                    text_scratch.drain(..2);
                }
                if let Some((p, b)) = edit {
                    let i = *p as usize % text_scratch.len();
                    text_scratch[i] = *b;
                }
                let keep = text_scratch.len() - (*cut as usize).min(text_scratch.len());
                text_scratch.truncate(keep);
                let m = match mode {
                    0 => None,
                    1 => Some(HexStringPrefix::Empty),
                    _ => Some(HexStringPrefix::WithVersion),
                };
                let (r, n) = armed(|| <K::H as FuzzyHashType>::from_str_bytes(&text_scratch, m));
                fnv.write_u64(r.is_ok() as u64);
                n
            }
            AOp::ParseBin { delta } => {
                let size = (<K::H as FuzzyHashType>::SIZE_IN_BYTES as i64 + *delta as i64).clamp(0, 160) as usize;
                for (i, b) in bin[..size].iter_mut().enumerate() {
                    *b = h.raw1.get(i).copied().unwrap_or(0);
                }
                let (r, n) = armed(|| <K::H as TryFrom<&[u8]>>::try_from(&bin[..size]));
                fnv.write_u64(r.is_ok() as u64);
                n
            }
            AOp::StoreBin { delta } => {
                let size = (<K::H as FuzzyHashType>::SIZE_IN_BYTES as i64 + *delta as i64).clamp(0, 256) as usize;
                let (r, n) = armed(|| h1.store_into_bytes(&mut out[..size]));
                fnv.write_u64(r.is_ok() as u64);
                n
            }
            AOp::StoreStr { prefix, delta } => {
                let need = if *prefix { <K::H as FuzzyHashType>::LEN_IN_STR } else { <K::H as FuzzyHashType>::LEN_IN_STR_EXCEPT_PREFIX };
                let size = (need as i64 + *delta as i64).clamp(0, 256) as usize;
                let p = if *prefix { HexStringPrefix::WithVersion } else { HexStringPrefix::Empty };
                let (r, n) = armed(|| h1.store_into_str_bytes(&mut out[..size], p));
                fnv.write_u64(r.is_ok() as u64);
                n
            }
            AOp::Compare { nolen } => {
                let cfg = if *nolen { ComparisonConfiguration::NoLength } else { ComparisonConfiguration::Default };
                let (r, n) = armed(|| h1.compare_with_config(&h2, cfg));
                fnv.write_u64(r as u64);
                n
            }
            AOp::MaxDist => armed(|| <K::H as FuzzyHashType>::max_distance(ComparisonConfiguration::Default) + <K::H as FuzzyHashType>::max_distance(ComparisonConfiguration::NoLength)).1,
            AOp::ClearChecksum => armed(|| h1.clear_checksum()).1,
            AOp::Accessors => {
                let mut ck = [0u8; 3];
                let mut bd = [0u8; 64];
                armed(|| {
                    let a = K::ck_data(&h1, &mut ck);
                    let b = K::body_data(&h1, &mut bd);
                    (a, b, h1.checksum().is_valid(), h1.length().value(), h1.length().is_valid(), h1.length().range().is_some(), h1.qratios().value(), h1.qratios().q1ratio(), h1.qratios().q2ratio(), h1.checksum().compare(h2.checksum()), h1.body().compare(h2.body()), h1.qratios().compare(h2.qratios()), h1.length().compare(h2.length()))
                })
                .1
            }
            AOp::Quartile(i) => armed(|| h1.body().quartile(*i as usize % K::BUCKETS)).1,
            AOp::HashBuf => {
                let (r, n) = armed(|| K::hash_buf(&data));
                fnv.write_u64(r.is_ok() as u64);
                n
            }
            AOp::CompareStr { bad } => {
                let b: &str = if *bad { &text_bad } else { &text2 };
                let (r, n) = armed(|| K::compare_str(&text1s, b));
                fnv.write_u64(r.map(|x| x as u64).unwrap_or(u64::MAX));
                n
            }
            AOp::DisplayToStack => {
                let mut sb = StackBuf { buf: [0; 200], len: 0 };
                let (r, n) = armed(|| core::fmt::write(&mut sb, format_args!("{}", h1)));
                fnv.write_u64(r.is_ok() as u64 + sb.len as u64);
                n
            }
            AOp::TraitImpls => {
                let mut sb = StackBuf { buf: [0; 200], len: 0 };
                let mut other = K::new_gen();
                other.update(&data[..data.len().min(9)]);
                let (r, n) = armed(|| {
                    other.clone_from(&g);
                    let a = h1 == h2;
                    let b = h1.clone() == h1;
                    let _ = core::fmt::write(&mut sb, format_args!("{:?} {:?}", h1, opts[3]));
                    (a, b, opts[3] == opts[4])
                });
                fnv.write_u64(r.0 as u64 + 2 * r.1 as u64 + sb.len as u64);
                g2 = Some(other);
                n
            }
            AOp::ErrorDisplay => {
                let mut sb = StackBuf { buf: [0; 200], len: 0 };
                let e1 = <K::H as FuzzyHashType>::from_str_bytes(b"T1", None).err();
                let e2 = K::hash_buf(b"").err();
                let e3 = h1.store_into_bytes(&mut []).err();
                armed(|| {
                    if let Some(e) = &e1 {
                        let _ = core::fmt::write(&mut sb, format_args!("{e} {e:?}"));
                    }
                    if let Some(e) = &e2 {
                        let _ = core::fmt::write(&mut sb, format_args!("{e} {e:?} {:?}", e.category()));
                    }
                    if let Some(e) = &e3 {
                        let _ = core::fmt::write(&mut sb, format_args!("{e} {e:?}"));
                    }
                })
                .1
            }
        };
        armed_calls += 1;
        states.push((K::ID as u64) << 16 | (kind as u64) << 8 | (!first_seen[kind]) as u64);
        first_seen[kind] = true;
        if n != 0 && violation.is_none() {
            violation = Some(Violation {
                class: format!("allocation-in-core-op:{name}"),
                detail: format!("step {step} {op:?} on {}: {n} heap allocation(s) inside the armed window", K::NAME),
            });
            break;
        }
    }
    drop(g2);
    // ---------- negative control: the monitor must see this process's allocations ----------
    let was_hard = HARD_FAIL.swap(false, Ordering::Relaxed);
    let (_s, n1) = armed(|| h1.to_string());
    let mut rd: &[u8] = &data[..data.len().min(64)];
    let (_r, n2) = armed(|| K::hash_stream(&mut rd).is_ok());
    // the harness's own allocation: independent of how the library implements its conveniences
    let (_v, n3) = armed(|| std::hint::black_box(Vec::<u8>::with_capacity(std::hint::black_box(48))));
    HARD_FAIL.store(was_hard, Ordering::Relaxed);
    if n1 == 0 || n3 == 0 {
        crate::harness_error("allocation monitor is blind: to_string() / a Vec allocation showed no allocation");
    }
    RunOut { violation, digest: fnv.finish(), states, armed_calls, neg_control_allocs: n1 + n2 + n3 }
}

fn draw_aop(r: &mut Rng, dlen: usize) -> AOp {
    match r.below(100) {
        0..=3 => AOp::New,
        4..=23 => {
            let len = match r.below(10) {
                0 => 0,
                1..=4 => r.range(1, 5),
                5..=7 => r.range(6, 300),
                8 => r.range(1, (dlen as u64).max(1)),
                _ => dlen as u64,
            } as u32;
            AOp::Update { off: r.below(dlen as u64 + 1) as u32, len }
        }
        24..=38 => AOp::Finalize(r.below(32) as u8),
        39..=42 => AOp::Len,
        43..=46 => AOp::CloneGen,
        47..=58 => AOp::ParseText {
            mode: r.below(3) as u8,
            strip: r.chance(1, 3),
            edit: if r.chance(1, 2) {
                let b = match r.below(3) {
                    0 => *r.pick(&[b'g', b'@', b'T', b't', b'2', 0xff, b' ', b'f']),
                    1 => r.next_u64() as u8,
                    _ => *r.pick(b"0123456789abcdefABCDEF") ^ (1u8 << r.below(8)),
                };
                Some((r.below(140) as u16, b))
            } else {
                None
            },
            cut: if r.chance(1, 5) { r.range(1, 3) as u8 } else { 0 },
            lower: r.chance(1, 3),
        },
        59..=64 => AOp::ParseBin { delta: *r.pick(&[0i8, 0, 0, -1, 1, 5, -5]) },
        65..=70 => AOp::StoreBin { delta: *r.pick(&[0i8, 0, -1, 1, 64, -64]) },
        71..=78 => AOp::StoreStr { prefix: r.chance(1, 2), delta: *r.pick(&[0i8, 0, -1, 1, -2, 2, 64, -64]) },
        79..=89 => AOp::Compare { nolen: r.chance(1, 3) },
        90..=91 => AOp::MaxDist,
        92..=93 => AOp::ClearChecksum,
        94..=95 => AOp::Accessors,
        96 => AOp::Quartile(r.below(256) as u8),
        97 => AOp::HashBuf,
        98 => AOp::CompareStr { bad: r.chance(1, 3) },
        _ => match r.below(3) {
            0 => AOp::DisplayToStack,
            1 => AOp::ErrorDisplay,
            _ => AOp::TraitImpls,
        },
    }
}

impl Scenario for C18 {
    type Hist = Hist;
    fn name(&self) -> &'static str {
        "c18"
    }
    fn property(&self) -> &'static str {
        "C18"
    }
    fn rule(&self) -> &'static str {
        "history = (variant, data, two hash values, op sequence over the 19 operation kinds (14 core operations + hash_buf_for, compare_with, Display / error Display / Debug into a stack buffer, clone_from and PartialEq), thread placement); every op runs inside an armed allocator window; \
         distinct = distinct history digests; non-trivial = at least 3 armed calls; states = (variant, op kind, first-call-of-this-kind-in-the-run?)"
    }
    fn generate(&self, r: &mut Rng, _index: u64) -> Hist {
        let len = if r.chance(1, 40) {
            // pieces at and above block sizes (64 KiB, 1 MiB): a size-dependent path must not allocate either
            *r.pick(&[65535usize, 65536, 65537, 131072, 300_000, (1 << 20) - 1, 1 << 20, (1 << 20) + 1, 2_500_000])
        } else {
            draw_small_len(r).min(5000)
        };
        let data = draw_data(r, len);
        let n = r.range(1, 30) as usize;
        let ops = (0..n).map(|_| draw_aop(r, len)).collect();
        Hist { variant: r.below(5) as u8, data, raw1: crate::workload::draw_raw(r), raw2: crate::workload::draw_raw(r), ops, on_thread: r.chance(1, 4) }
    }
    fn execute(&self, h: &Hist, st: &mut Stats) -> Outcome {
        st.hit("runs");
        let res = guarded(|| {
            if h.on_thread {
                std::thread::scope(|s| s.spawn(|| with_kind!(h.variant, K => run::<K>(h))).join().expect("c18 thread"))
            } else {
                with_kind!(h.variant, K => run::<K>(h))
            }
        });
        match res {
            Ok(o) => {
                st.add("armed_calls", o.armed_calls);
                st.add("probe.negative_control_allocations_seen", o.neg_control_allocs);
                if h.on_thread {
                    st.hit("probe.sequence_on_fresh_thread");
                }
                if HARD_FAIL.load(Ordering::Relaxed) {
                    st.add("fault.allocation_failure_armed_calls", o.armed_calls);
                }
                if ENV_FAULT.load(Ordering::Relaxed) {
                    st.add("fault.every_env_var_set_armed_calls", o.armed_calls);
                }
                st.add("probe.env_queries_inside_core_ops", ENV_QUERIES_ARMED.swap(0, Ordering::Relaxed));
                Outcome { violation: o.violation, digest: o.digest, nontrivial: o.armed_calls >= 3, states: o.states }
            }
            Err(p) => Outcome {
                violation: Some(Violation { class: format!("panic:{}", panic_class(&p)), detail: format!("panic: {p}") }),
                digest: 0,
                nontrivial: true,
                states: vec![],
            },
        }
    }
    fn shrink(&self, h: &Hist) -> Vec<Hist> {
        let mut out = Vec::new();
        let n = h.ops.len();
        if n > 1 {
            let mut a = h.clone();
            a.ops.truncate(n / 2);
            out.push(a);
            let mut b = h.clone();
            b.ops.drain(..n / 2);
            out.push(b);
        }
        for i in 0..n {
            let mut c = h.clone();
            c.ops.remove(i);
            out.push(c);
        }
        if h.on_thread {
            let mut c = h.clone();
            c.on_thread = false;
            out.push(c);
        }
        for d in h.data.shrink() {
            let mut c = h.clone();
            c.data = d;
            out.push(c);
        }
        if h.variant != 1 {
            let mut c = h.clone();
            c.variant = 1;
            out.push(c);
        }
        out
    }
    fn to_json(&self, h: &Hist) -> Value {
        let ops: Vec<String> = h.ops.iter().map(|o| format!("{o:?}")).collect();
        let enc: Vec<Value> = h
            .ops
            .iter()
            .map(|o| match o {
                AOp::New => json!(["new"]),
                AOp::Update { off, len } => json!(["update", off, len]),
                AOp::Finalize(o) => json!(["finalize", o]),
                AOp::Len => json!(["len"]),
                AOp::CloneGen => json!(["clone"]),
                AOp::ParseText { mode, strip, edit, cut, lower } => json!(["parse_text", mode, strip, edit.map(|(p, b)| vec![p as u64, b as u64]), cut, lower]),
                AOp::ParseBin { delta } => json!(["parse_bin", delta]),
                AOp::StoreBin { delta } => json!(["store_bin", delta]),
                AOp::StoreStr { prefix, delta } => json!(["store_str", prefix, delta]),
                AOp::Compare { nolen } => json!(["compare", nolen]),
                AOp::MaxDist => json!(["max_dist"]),
                AOp::ClearChecksum => json!(["clear_checksum"]),
                AOp::Accessors => json!(["accessors"]),
                AOp::Quartile(i) => json!(["quartile", i]),
                AOp::HashBuf => json!(["hash_buf"]),
                AOp::CompareStr { bad } => json!(["compare_str", bad]),
                AOp::DisplayToStack => json!(["display"]),
                AOp::ErrorDisplay => json!(["error_display"]),
                AOp::TraitImpls => json!(["trait_impls"]),
            })
            .collect();
        json!({"variant": VARIANT_NAMES[h.variant as usize], "variant_id": h.variant, "data": h.data.to_json(), "raw1": hex(&h.raw1), "raw2": hex(&h.raw2),
               "ops": enc, "ops_readable": ops, "on_thread": h.on_thread})
    }
    fn from_json(&self, v: &Value) -> Result<Hist, String> {
        let mut ops = Vec::new();
        for e in v["ops"].as_array().ok_or("ops")? {
            let a = e.as_array().ok_or("op")?;
            let u = |i: usize| a.get(i).and_then(|x| x.as_u64()).ok_or(format!("arg {i}"));
            let s = |i: usize| a.get(i).and_then(|x| x.as_i64()).ok_or(format!("arg {i}"));
            let b = |i: usize| a.get(i).and_then(|x| x.as_bool()).ok_or(format!("arg {i}"));
            ops.push(match a[0].as_str().ok_or("op name")? {
                "new" => AOp::New,
                "update" => AOp::Update { off: u(1)? as u32, len: u(2)? as u32 },
                "finalize" => AOp::Finalize(u(1)? as u8),
                "len" => AOp::Len,
                "clone" => AOp::CloneGen,
                "parse_text" => AOp::ParseText {
                    mode: u(1)? as u8,
                    strip: b(2)?,
                    edit: a[3].as_array().map(|p| (p[0].as_u64().unwrap_or(0) as u16, p[1].as_u64().unwrap_or(0) as u8)),
                    cut: u(4)? as u8,
                    lower: a.get(5).and_then(|x| x.as_bool()).unwrap_or(false),
                },
                "parse_bin" => AOp::ParseBin { delta: s(1)? as i8 },
                "store_bin" => AOp::StoreBin { delta: s(1)? as i8 },
                "store_str" => AOp::StoreStr { prefix: b(1)?, delta: s(2)? as i8 },
                "compare" => AOp::Compare { nolen: b(1)? },
                "max_dist" => AOp::MaxDist,
                "clear_checksum" => AOp::ClearChecksum,
                "accessors" => AOp::Accessors,
                "quartile" => AOp::Quartile(u(1)? as u8),
                "hash_buf" => AOp::HashBuf,
                "compare_str" => AOp::CompareStr { bad: b(1)? },
                "display" => AOp::DisplayToStack,
                "error_display" => AOp::ErrorDisplay,
                "trait_impls" => AOp::TraitImpls,
                o => return Err(format!("unknown op {o}")),
            });
        }
        Ok(Hist {
            variant: v["variant_id"].as_u64().ok_or("variant_id")? as u8,
            data: DataDesc::from_json(&v["data"])?,
            raw1: unhex(v["raw1"].as_str().ok_or("raw1")?)?,
            raw2: unhex(v["raw2"].as_str().ok_or("raw2")?)?,
            ops,
            on_thread: v["on_thread"].as_bool().unwrap_or(false),
        })
    }
}

// ------------------------------------------------------------------------------------------------
// c18mt: the same core operations executed by several REAL threads of one process at the same time.
// Each thread arms its own (thread-local) window around a burst of calls on its own objects; process-wide
// scratch state that is only allocated under contention shows up here.  The interleaving is the OS scheduler's
// (not replayable), but the verdict cannot depend on it on a tree that holds the property: the count must be 0
// under every schedule.
// ------------------------------------------------------------------------------------------------
#[derive(Clone, Debug, Hash, PartialEq, Eq)]
pub struct MtHist {
    pub variant: u8,
    pub data: DataDesc,
    pub raw: Vec<u8>,
    pub threads: u8,
    /// 0 finalize, 1 compare, 2 parse (accepting), 3 update, 4 store_into_str_bytes, 5 mixed
    pub kind: u8,
    pub iters: u16,
    pub o: u8,
}
pub struct C18Mt;

fn burst<K: Kind>(h: &MtHist) -> (u64, u64) {
    let data = h.data.bytes();
    let threads = h.threads.clamp(2, 4) as usize;
    let barrier = std::sync::Barrier::new(threads);
    let counts: Vec<(u64, u64)> = std::thread::scope(|sc| {
        let hs: Vec<_> = (0..threads)
            .map(|t| {
                let (data, barrier) = (&data, &barrier);
                sc.spawn(move || {
                    // per-thread objects, allocated before arming
                    let mut g = K::new_gen();
                    g.update(data);
                    let h1 = raw_hash::<K>(&h.raw);
                    let mut raw2 = h.raw.clone();
                    raw2[(t * 7) % 60 + 5] ^= 0x5a;
                    let h2 = raw_hash::<K>(&raw2);
                    let text: Vec<u8> = h1.to_string().into_bytes();
                    let opt = options(h.o);
                    let mut out = [0u8; 160];
                    let piece = &data[..data.len().min(64)];
                    barrier.wait();
                    let (acc, n) = armed(|| {
                        let mut acc = 0u64;
                        for i in 0..h.iters as u64 {
                            let k = if h.kind == 5 { (i % 5) as u8 } else { h.kind };
                            match k {
                                0 => acc += g.finalize_with_options(&opt).is_ok() as u64,
                                1 => acc += h1.compare_with_config(&h2, ComparisonConfiguration::Default) as u64,
                                2 => acc += <K::H as FuzzyHashType>::from_str_bytes(&text, None).is_ok() as u64,
                                3 => g.update(piece),
                                _ => acc += h1.store_into_str_bytes(&mut out, HexStringPrefix::WithVersion).is_ok() as u64,
                            }
                        }
                        acc
                    });
                    std::hint::black_box(acc);
                    (n, h.iters as u64)
                })
            })
            .collect();
        hs.into_iter().map(|x| x.join().expect("c18mt thread")).collect()
    });
    (counts.iter().map(|c| c.0).sum(), counts.iter().map(|c| c.1).sum())
}

impl Scenario for C18Mt {
    type Hist = MtHist;
    fn name(&self) -> &'static str {
        "c18mt"
    }
    fn property(&self) -> &'static str {
        "C18"
    }
    fn rule(&self) -> &'static str {
        "history = (variant, data, hash value, number of real threads 2..4, operation kind, calls per thread, options); every thread arms its own window around its burst;          distinct = distinct history digests; non-trivial = every run (>= 2 threads x >= 50 calls overlapping in time)"
    }
    fn generate(&self, r: &mut Rng, _index: u64) -> MtHist {
        let len = draw_small_len(r).min(2000).max(60);
        MtHist { variant: r.below(5) as u8, data: draw_data(r, len), raw: crate::workload::draw_raw(r), threads: r.range(2, 4) as u8, kind: r.below(6) as u8,
                 iters: r.range(50, 600) as u16, o: if r.chance(1, 2) { 30 } else { r.below(32) as u8 } }
    }
    fn execute(&self, h: &MtHist, st: &mut Stats) -> Outcome {
        st.hit("runs");
        let res = guarded(|| with_kind!(h.variant, K => burst::<K>(h)));
        match res {
            Ok((allocs, calls)) => {
                st.add("armed_calls", calls);
                st.add("fault.concurrent_threads", h.threads.clamp(2, 4) as u64);
                let violation = if allocs != 0 {
                    let name = ["finalize_with_options", "compare_with_config", "from_str_bytes", "update", "store_into_str_bytes", "mixed core operations"][h.kind as usize % 6];
                    Some(Violation { class: format!("allocation-under-concurrency:{name}"), detail: format!("{} threads x {} calls of {name} on {}: {allocs} heap allocation(s) inside the armed windows", h.threads, h.iters, K_NAMES[h.variant as usize % 5]) })
                } else {
                    None
                };
                Outcome { violation, digest: calls, nontrivial: true, states: vec![(h.variant as u64) << 8 | (h.kind as u64) << 4 | h.threads as u64] }
            }
            Err(p) => Outcome { violation: Some(Violation { class: format!("panic:{}", panic_class(&p)), detail: format!("panic: {p}") }), digest: 0, nontrivial: true, states: vec![] },
        }
    }
    fn shrink(&self, h: &MtHist) -> Vec<MtHist> {
        let mut out = Vec::new();
        if h.variant != 1 {
            let mut c = h.clone();
            c.variant = 1;
            out.push(c);
        }
        if h.threads > 2 {
            let mut c = h.clone();
            c.threads = 2;
            out.push(c);
        }
        out
    }
    fn to_json(&self, h: &MtHist) -> Value {
        json!({"variant": VARIANT_NAMES[h.variant as usize % 5], "variant_id": h.variant, "data": h.data.to_json(), "raw": hex(&h.raw), "threads": h.threads, "kind": h.kind, "iters": h.iters, "o": h.o,
               "kind_legend": "0 finalize, 1 compare, 2 parse, 3 update, 4 store_into_str_bytes, 5 mixed"})
    }
    fn from_json(&self, v: &Value) -> Result<MtHist, String> {
        Ok(MtHist {
            variant: v["variant_id"].as_u64().ok_or("variant_id")? as u8,
            data: DataDesc::from_json(&v["data"])?,
            raw: unhex(v["raw"].as_str().ok_or("raw")?)?,
            threads: v["threads"].as_u64().ok_or("threads")? as u8,
            kind: v["kind"].as_u64().ok_or("kind")? as u8,
            iters: v["iters"].as_u64().ok_or("iters")? as u16,
            o: v["o"].as_u64().ok_or("o")? as u8,
        })
    }
}
const K_NAMES: [&str; 5] = VARIANT_NAMES;


/// C12 under allocation faults (one scenario per process: an allocation failure normally aborts the process).
/// While the call runs, every allocation request (alloc, alloc_zeroed, realloc) of at least `min_size` bytes is
/// refused after the first `skip`.  Acceptable outcomes: the process aborts (the driver sees the signal), the right
/// result, or an I/O error -- never a result that differs from hash_buf of the bytes the reader delivered.
pub fn c12_alloc_fault(api: u8, min_size: usize, skip: u64, len: usize, seed: u64, dir: &str) -> (i32, Value) {
    use std::io::Read;
    struct Chunky<'a> {
        d: &'a [u8],
        pos: usize,
        step: u64,
    }
    impl Read for Chunky<'_> {
        fn read(&mut self, buf: &mut [u8]) -> std::io::Result<usize> {
            self.step += 1;
            if self.step == 3 {
                return Err(std::io::Error::from(std::io::ErrorKind::Interrupted));
            }
            let n = buf.len().min(self.d.len() - self.pos).min(1 + (self.step as usize * 7919) % 50_000);
            buf[..n].copy_from_slice(&self.d[self.pos..self.pos + n]);
            self.pos += n;
            Ok(n)
        }
    }
    let mut data = vec![0u8; len];
    Rng::new(seed).fill(&mut data);
    let show = |r: Result<String, tlsh::GeneratorOrIOError>| match r {
        Ok(s) => s,
        Err(tlsh::GeneratorOrIOError::GeneratorError(e)) => format!("Err({e:?})"),
        Err(tlsh::GeneratorOrIOError::IOError(e)) => format!("IOError({:?})", e.kind()),
    };
    // everything the harness needs is allocated before arming
    let path = std::path::Path::new(dir).join(format!("allocfault_{api}_{min_size}_{skip}_{len}_{}.bin", std::process::id()));
    if api == 6 {
        std::fs::create_dir_all(dir).expect("scratch dir");
        std::fs::write(&path, &data).expect("write scratch file");
    }
    let want = if api >= 5 {
        crate::kinds::render::<tlsh::Tlsh>(&tlsh::hash_buf(&data))
    } else {
        with_kind!(api, K => crate::kinds::render::<<K as Kind>::H>(&<K as Kind>::hash_buf(&data)))
    };
    let mut rd = Chunky { d: &data, pos: 0, step: 0 };
    let mut out = String::with_capacity(400);
    FAIL_MIN_SIZE.store(min_size, Ordering::Relaxed);
    FAIL_SKIP.store(skip, Ordering::Relaxed);
    HARD_FAIL.store(true, Ordering::Relaxed);
    let (res, nalloc) = armed(|| {
        if api == 6 {
            tlsh::hash_file(&path).map(|h| {
                let mut b = [0u8; 160];
                let n = h.store_into_str_bytes(&mut b, HexStringPrefix::WithVersion).unwrap_or(0);
                (b, n)
            })
        } else if api == 5 {
            tlsh::hash_stream(&mut rd).map(|h| {
                let mut b = [0u8; 160];
                let n = h.store_into_str_bytes(&mut b, HexStringPrefix::WithVersion).unwrap_or(0);
                (b, n)
            })
        } else {
            with_kind!(api, K => <K as Kind>::hash_stream(&mut rd).map(|h| {
                let mut b = [0u8; 160];
                let n = h.store_into_str_bytes(&mut b, HexStringPrefix::WithVersion).unwrap_or(0);
                (b, n)
            }))
        }
    });
    HARD_FAIL.store(false, Ordering::Relaxed);
    let refused = FAILED.load(Ordering::Relaxed);
    let got = show(res.map(|(b, n)| {
        out.push_str(std::str::from_utf8(&b[..n]).unwrap_or("?"));
        out.clone()
    }));
    if api == 6 {
        let _ = std::fs::remove_file(&path);
    }
    let outcome = if got == want {
        "right-result"
    } else if got.starts_with("IOError(") {
        "io-error"
    } else {
        "wrong"
    };
    let mut viol = Vec::new();
    let skew = SKEW.load(Ordering::Relaxed);
    if skew && refused == 0 && outcome != "right-result" {
        // nothing was refused: the allocator merely placed byte buffers at odd addresses, which changes nothing observable
        viol.push(json!({"index": 0, "class": "wrong-result-under-skewed-allocator", "engine": "bigstream",
            "detail": format!("api {api}, {len} bytes, byte buffers of >= {SKEW_MIN} bytes placed at addresses 1 mod 16 (no allocation refused, {nalloc} seen): got {got}, want {want}"),
            "history": {"api": api, "skew": true, "len": len, "seed": seed.to_string()},
            "argv": ["c12alloc", "--api", api.to_string(), "--min-size", min_size.to_string(), "--skip", skip.to_string(), "--len", len.to_string(), "--seed", seed.to_string(), "--dir", dir, "--skew"]}));
    } else if outcome == "wrong" {
        viol.push(json!({"index": 0, "class": "wrong-result-under-allocation-failure", "engine": "bigstream",
            "detail": format!("api {api}, {len} bytes, allocation requests >= {min_size} bytes refused after the first {skip} ({refused} refused, {nalloc} seen): got {got}, want {want} (or an abort / an I/O error)"),
            "history": {"api": api, "min_size": min_size, "skip": skip, "len": len, "seed": seed.to_string()},
            "argv": ["c12alloc", "--api", api.to_string(), "--min-size", min_size.to_string(), "--skip", skip.to_string(), "--len", len.to_string(), "--seed", seed.to_string(), "--dir", dir]}));
    }
    let n = viol.len();
    let rep = json!({"scenario": "c12alloc", "property": "C12", "seed": seed.to_string(), "evaluations": 1, "distinct": 1, "distinct_nontrivial": (refused > 0) as u64,
        "rule": "one evaluation = one process: hash_stream / hash_stream_for / hash_file while every allocation request of at least min_size bytes is refused after the first `skip`; non-trivial = at least one request was refused",
        "counters": {"fault.allocation_refused": refused, "fault.allocator_skewed_byte_buffers": skew as u64, format!("probe.alloc_fault_outcome_{outcome}"): 1}, "samples": [{"api": api, "min_size": min_size, "skip": skip, "skew": skew, "outcome": outcome}],
        "violation_count": n, "violations": viol, "wall_s": 0.0});
    (if n > 0 { 1 } else { 0 }, rep)
}
