//! C07 (b) — first-call races under a scheduler the simulator owns (shuttle).
//!
//! Built only through the shadow manifest (fast-tlsh + shuttle, cfgs fast_tlsh_verif and
//! fast_tlsh_verif_shuttle): the dispatch cells block on a shuttle mutex, every CPU-feature query
//! inside an initialiser is a scheduling point.  2-4 tasks make, in seeded orders, the calls that hit
//! the five dispatch cells; every task's results must equal the sequentially computed ones.
//!
//!   sim shuttle --seed S --iters N --sched random|pct --dir D    -> JSON report
//!   sim shuttle-replay --schedule-file F                          -> exit 1 if the violation reproduces

use crate::prng::{Fnv, Rng};
use crate::workload::{draw_op, exec_op, op_json, Shared, WOp};
use serde_json::{json, Value};
use shuttle::rand::RngCore;
use std::sync::atomic::{AtomicU64, Ordering};
use std::sync::Mutex as StdMutex;
use tlsh::verif;

static EXECS: AtomicU64 = AtomicU64::new(0);
static INITS: AtomicU64 = AtomicU64::new(0);
static POINTS: AtomicU64 = AtomicU64::new(0);
static WINS: [AtomicU64; 8] = [const { AtomicU64::new(0) }; 8];
/// interleaving signature of the current execution: sequence of task ids at sim points
static SIG: StdMutex<Vec<u8>> = StdMutex::new(Vec::new());
static SIGS: StdMutex<Vec<u64>> = StdMutex::new(Vec::new());
static LAST: StdMutex<Option<Value>> = StdMutex::new(None);

fn task_index() -> u8 {
    shuttle::thread::current().name().and_then(|n| n.strip_prefix('t').and_then(|x| x.parse::<u8>().ok())).unwrap_or(7)
}

fn point(name: &'static str) {
    POINTS.fetch_add(1, Ordering::Relaxed);
    let t = task_index();
    SIG.lock().unwrap().push(t << 3 | (name.len() as u8 & 7));
    if name == "once.init" {
        INITS.fetch_add(1, Ordering::Relaxed);
        WINS[(t as usize).min(7)].fetch_add(1, Ordering::Relaxed);
    }
    // a context switch (sleep, not yield_now: PCT deprioritises yielding tasks and would degenerate)
    shuttle::thread::sleep(std::time::Duration::ZERO);
}

const MASKS: [u32; 4] = [0, verif::CPU_SSE2, verif::CPU_SSE2 | verif::CPU_SSSE3 | verif::CPU_SSE4_1, verif::CPU_ALL];

/// One execution. Everything here is a function of shuttle's schedule (including its rng).
fn scenario() {
    EXECS.fetch_add(1, Ordering::Relaxed);
    SIG.lock().unwrap().clear();
    let wseed = shuttle::rand::thread_rng().next_u64();
    let mut r = Rng::new(wseed);
    verif::boot();
    let mask = *r.pick(&MASKS);
    verif::set_cpu_mask(mask);
    verif::set_sim_point(Some(point));
    let ntasks = r.range(2, 4) as usize;
    // the calls that hit the five cells: finalize on Short/Normal/Long, compare on Normal/Long; plus noise
    let shared = std::sync::Arc::new(Shared::new(r.next_u64()));
    let mut per_task_shared: Vec<Vec<(u8, u8)>> = Vec::new();
    let mut per_task: Vec<Vec<WOp>> = Vec::new();
    for _ in 0..ntasks {
        per_task_shared.push((0..r.range(0, 3)).map(|_| (r.below(3) as u8, if r.chance(1, 2) { 30 } else { r.below(32) as u8 })).collect());
        let n = r.range(1, 5);
        let mut ops = Vec::new();
        for _ in 0..n {
            let mut op = draw_op(&mut r);
            // keep inputs small: the point is the race, not the data
            if let WOp::Gen { v, o, .. } = &op {
                op = WOp::Gen { v: *v, data: crate::data::DataDesc::Random { seed: r.next_u64(), len: r.range(50, 300) as usize }, cut: 0, o: *o | 28 };
            }
            ops.push(op);
        }
        per_task.push(ops);
    }
    *LAST.lock().unwrap() = Some(json!({"workload_seed": wseed.to_string(), "cpu_mask": mask, "tasks": per_task.iter().map(|t| t.iter().map(op_json).collect::<Vec<_>>()).collect::<Vec<_>>()}));
    let mut handles = Vec::new();
    for (i, ops) in per_task.iter().cloned().enumerate() {
        let sh = shared.clone();
        let shops = per_task_shared[i].clone();
        handles.push(
            shuttle::thread::Builder::new()
                .name(format!("t{i}"))
                .spawn(move || {
                    // concurrent finalize calls on generators shared by all tasks, then the task's own ops
                    let mut out: Vec<String> = shops.iter().map(|(w, o)| sh.finalize(*w, *o)).collect();
                    out.extend(ops.iter().map(exec_op));
                    out
                })
                .expect("spawn"),
        );
    }
    let got: Vec<Vec<String>> = handles.into_iter().map(|h| h.join().expect("task panicked")).collect();
    // sequential reference, computed inside the execution (the shim's primitives only work here)
    for (t, ops) in per_task.iter().enumerate() {
        let ns = per_task_shared[t].len();
        for (i, (w, o)) in per_task_shared[t].iter().enumerate() {
            let want = shared.finalize(*w, *o);
            if got[t][i] != want {
                panic!("C07-VIOLATION first-caller-dependence: task {t} concurrent finalize #{i} of shared generator {w} with options {o} returned `{}` but the sequential result is `{}`", got[t][i], want);
            }
        }
        for (i, op) in ops.iter().enumerate() {
            let want = exec_op(op);
            let i = i + ns;
            if got[t][i] != want {
                panic!("C07-VIOLATION first-caller-dependence: task {t} op #{i} {} returned `{}` but the sequential result is `{}`", op_json(op), got[t][i], want);
            }
        }
    }
    let mut f = Fnv::new();
    f.write(&SIG.lock().unwrap());
    SIGS.lock().unwrap().push(f.finish());
    verif::set_sim_point(None);
}

pub fn run(seed: u64, iters: usize, sched: &str, dir: &str) -> (i32, Value) {
    let mut cfg = shuttle::Config::new();
    cfg.failure_persistence = shuttle::FailurePersistence::File(Some(dir.into()));
    cfg.max_steps = shuttle::MaxSteps::FailAfter(200_000);
    let t0 = std::time::Instant::now();
    let res = std::panic::catch_unwind(|| {
        if sched == "pct" {
            let s = shuttle::scheduler::PctScheduler::new_from_seed(seed, 3, iters);
            shuttle::Runner::new(s, cfg).run(scenario);
        } else {
            let s = shuttle::scheduler::RandomScheduler::new_from_seed(seed, iters);
            shuttle::Runner::new(s, cfg).run(scenario);
        }
    });
    let mut sigs = SIGS.lock().unwrap_or_else(|e| e.into_inner()).clone();
    sigs.sort_unstable();
    sigs.dedup();
    let wins: Vec<u64> = WINS.iter().map(|w| w.load(Ordering::Relaxed)).collect();
    let mut rep = json!({
        "scenario": "c07shuttle", "property": "C07", "seed": seed.to_string(), "scheduler": sched,
        "evaluations": EXECS.load(Ordering::Relaxed), "distinct_nontrivial": sigs.len(), "distinct": sigs.len(),
        "rule": "one execution = 2-4 tasks racing first calls under a seeded shuttle schedule; distinct/non-trivial = distinct interleaving signatures (sequence of (task, sim-point kind) pairs), each containing at least one dispatch-cell initialisation",
        "counters": {"probe.dispatch_inits": INITS.load(Ordering::Relaxed), "fault.context_switch_at_sim_point": POINTS.load(Ordering::Relaxed),
                     "probe.init_won_by_task0": wins[0], "probe.init_won_by_task1": wins[1], "probe.init_won_by_task2": wins[2], "probe.init_won_by_task3": wins[3]},
        "samples": [LAST.lock().unwrap_or_else(|e| e.into_inner()).clone()],
        "violation_count": 0, "violations": [], "wall_s": t0.elapsed().as_secs_f64(),
    });
    match res {
        Ok(()) => (0, rep),
        Err(p) => {
            let msg = p.downcast_ref::<String>().cloned().or_else(|| p.downcast_ref::<&str>().map(|s| s.to_string())).unwrap_or_default();
            rep["violation_count"] = json!(1);
            rep["violations"] = json!([{"index": EXECS.load(Ordering::Relaxed), "class": if msg.contains("C07-VIOLATION") { "first-caller-dependence".to_string() } else { format!("panic-under-schedule:{}", crate::framework::panic_class(&msg)) },
                "detail": msg, "history": LAST.lock().unwrap_or_else(|e| e.into_inner()).clone(), "engine": "shuttle", "schedule_dir": dir}]);
            (1, rep)
        }
    }
}

pub fn replay(schedule_file: &str) -> i32 {
    let res = std::panic::catch_unwind(|| shuttle::replay_from_file(scenario, schedule_file));
    match res {
        Ok(()) => {
            println!("{}", json!({"scenario": "c07shuttle", "violation": Value::Null}));
            0
        }
        Err(p) => {
            let msg = p.downcast_ref::<String>().cloned().or_else(|| p.downcast_ref::<&str>().map(|s| s.to_string())).unwrap_or_default();
            println!("{}", json!({"scenario": "c07shuttle", "violation": {"class": "first-caller-dependence", "detail": msg}, "history": LAST.lock().unwrap_or_else(|e| e.into_inner()).clone()}));
            1
        }
    }
}
