//! The only source of randomness in the simulator: SplitMix64 -> xoshiro256**.
//! Implemented here (no dependency whose stream could change between versions).

#[derive(Clone, Debug)]
pub struct Rng {
    s: [u64; 4],
}

#[inline]
pub fn splitmix64(x: &mut u64) -> u64 {
    *x = x.wrapping_add(0x9E37_79B9_7F4A_7C15);
    let mut z = *x;
    z = (z ^ (z >> 30)).wrapping_mul(0xBF58_476D_1CE4_E5B9);
    z = (z ^ (z >> 27)).wrapping_mul(0x94D0_49BB_1331_11EB);
    z ^ (z >> 31)
}

/// Mixes (base seed, scenario tag, run index) into one per-run seed.
pub fn mix(seed: u64, tag: u64, index: u64) -> u64 {
    let mut x = seed ^ tag.wrapping_mul(0xA24B_AED4_963E_E407);
    let a = splitmix64(&mut x);
    let mut y = a ^ index.wrapping_mul(0x9FB2_1C65_1E98_DF25);
    splitmix64(&mut y)
}

pub fn tag_of(name: &str) -> u64 {
    let mut h = Fnv::new();
    h.write(name.as_bytes());
    h.finish()
}

impl Rng {
    pub fn new(seed: u64) -> Self {
        let mut x = seed;
        let s = [
            splitmix64(&mut x),
            splitmix64(&mut x),
            splitmix64(&mut x),
            splitmix64(&mut x),
        ];
        Rng { s }
    }
    #[inline]
    pub fn next_u64(&mut self) -> u64 {
        let r = self.s[1].wrapping_mul(5).rotate_left(7).wrapping_mul(9);
        let t = self.s[1] << 17;
        self.s[2] ^= self.s[0];
        self.s[3] ^= self.s[1];
        self.s[1] ^= self.s[2];
        self.s[0] ^= self.s[3];
        self.s[2] ^= t;
        self.s[3] = self.s[3].rotate_left(45);
        r
    }
    /// Uniform in 0..n (n > 0). Slight modulo bias is irrelevant here.
    #[inline]
    pub fn below(&mut self, n: u64) -> u64 {
        debug_assert!(n > 0);
        self.next_u64() % n
    }
    /// Uniform in lo..=hi.
    #[inline]
    pub fn range(&mut self, lo: u64, hi: u64) -> u64 {
        lo + self.below(hi - lo + 1)
    }
    #[inline]
    pub fn chance(&mut self, num: u64, den: u64) -> bool {
        self.below(den) < num
    }
    #[inline]
    pub fn pick<'a, T>(&mut self, xs: &'a [T]) -> &'a T {
        &xs[self.below(xs.len() as u64) as usize]
    }
    pub fn fill(&mut self, out: &mut [u8]) {
        let mut chunks = out.chunks_exact_mut(8);
        for c in &mut chunks {
            c.copy_from_slice(&self.next_u64().to_le_bytes());
        }
        let rem = chunks.into_remainder();
        if !rem.is_empty() {
            let v = self.next_u64().to_le_bytes();
            let n = rem.len();
            rem.copy_from_slice(&v[..n]);
        }
    }
}

/// FNV-1a 64: the deterministic digest used for history / outcome digests.
#[derive(Clone, Copy)]
pub struct Fnv(pub u64);
impl Fnv {
    pub fn new() -> Self {
        Fnv(0xcbf2_9ce4_8422_2325)
    }
    #[inline]
    pub fn write(&mut self, bytes: &[u8]) {
        for &b in bytes {
            self.0 ^= b as u64;
            self.0 = self.0.wrapping_mul(0x0000_0100_0000_01B3);
        }
    }
    #[inline]
    pub fn write_u64(&mut self, v: u64) {
        self.write(&v.to_le_bytes());
    }
    pub fn finish(&self) -> u64 {
        // final avalanche so that xor/sum combinations of digests stay well mixed
        let mut x = self.0;
        splitmix64(&mut x)
    }
}
impl std::hash::Hasher for Fnv {
    fn finish(&self) -> u64 {
        Fnv::finish(self)
    }
    fn write(&mut self, bytes: &[u8]) {
        Fnv::write(self, bytes)
    }
}

pub fn digest_of<T: std::hash::Hash>(t: &T) -> u64 {
    let mut h = Fnv::new();
    t.hash(&mut h);
    Fnv::finish(&h)
}
