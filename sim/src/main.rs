//! tlsh-dst: deterministic simulator for fast-tlsh.  One binary per build configuration.
//!
//!   sim batch <scenario> --seed S --start A --count N --threads T   -> JSON report on stdout
//!   sim replay <file.json>                                           -> JSON on stdout, exit 1 if the violation reproduces
//!
//! exit codes: 0 ok, 1 violation(s) found / reproduced, 2 harness error.

#![allow(dead_code)]

mod data;
mod framework;
mod kinds;
mod prng;

mod c03;
mod c07;
#[cfg(feature = "shuttle")]
mod c07shuttle;
mod c11;
mod c11big;
#[cfg(feature = "alloc_world")]
mod c18;
#[cfg(feature = "alloc_world")]
#[global_allocator]
static SIM_ALLOC: c18::SimAlloc = c18::SimAlloc;
mod model;
mod tables;
mod workload;
#[cfg(feature = "serde")]
mod c16;
#[cfg(not(feature = "nostd"))]
mod c12;
#[cfg(not(feature = "nostd"))]
mod c12file;
mod c17;

use framework::{run_batch, BatchArgs, Scenario};
use serde_json::Value;

fn arg_val(args: &[String], key: &str) -> Option<String> {
    args.iter().position(|a| a == key).and_then(|i| args.get(i + 1).cloned())
}

fn parse_u64(s: &str) -> u64 {
    let s = s.trim();
    if let Some(h) = s.strip_prefix("0x") {
        u64::from_str_radix(h, 16).unwrap_or_else(|_| harness_error(&format!("bad number {s}")))
    } else {
        s.parse::<u64>().unwrap_or_else(|_| harness_error(&format!("bad number {s}")))
    }
}

pub fn harness_error(msg: &str) -> ! {
    eprintln!("HARNESS-ERROR: {msg}");
    std::process::exit(2)
}

fn batch_with<S: Scenario>(s: &S, a: &BatchArgs) -> i32 {
    let v = run_batch(s, a);
    println!("{}", serde_json::to_string(&v).unwrap());
    if v["violation_count"].as_u64().unwrap_or(0) > 0 {
        1
    } else {
        0
    }
}

fn history_with<S: Scenario>(s: &S, seed: u64, index: u64) -> i32 {
    let mut rng = prng::Rng::new(framework::run_seed_of(s, seed, index));
    let h = s.generate(&mut rng, index);
    println!("{}", serde_json::to_string(&s.to_json(&h)).unwrap());
    0
}

fn replay_with<S: Scenario>(s: &S, file: &Value) -> i32 {
    match framework::replay(s, file) {
        Ok(v) => {
            println!("{}", serde_json::to_string(&v).unwrap());
            if v["violation"].is_null() {
                0
            } else {
                1
            }
        }
        Err(e) => harness_error(&format!("cannot parse replay file: {e}")),
    }
}

macro_rules! scenarios {
    ($name:expr, $s:ident => $body:expr) => {
        match $name {
            "c03" => {
                let $s = c03::C03;
                $body
            }
            "c07cpu" => {
                let $s = c07::C07Cpu;
                $body
            }
            #[cfg(feature = "alloc_world")]
            "c18" => {
                let $s = c18::C18;
                $body
            }
            #[cfg(feature = "alloc_world")]
            "c18mt" => {
                let $s = c18::C18Mt;
                $body
            }
            "c17api" => {
                let $s = c17::C17Api;
                $body
            }
            "c11" => {
                let $s = c11::C11;
                $body
            }
            "c11small" => {
                let $s = c11::C11Small;
                $body
            }
            #[cfg(feature = "serde")]
            "c16" => {
                let $s = c16::C16;
                $body
            }
            #[cfg(feature = "serde")]
            "c16mock" => {
                let $s = c16::C16Mock;
                $body
            }
            #[cfg(not(feature = "nostd"))]
            "c12" => {
                let $s = c12::C12 { lies: false };
                $body
            }
            #[cfg(not(feature = "nostd"))]
            "c17reader" => {
                let $s = c12::C12 { lies: true };
                $body
            }
            other => harness_error(&format!("unknown scenario {other} in this build")),
        }
    };
}

fn main() {
    let args: Vec<String> = std::env::args().collect();
    if args.len() < 2 {
        harness_error("usage: sim batch <scenario> ... | sim replay <file>");
    }
    framework::install_quiet_panic_hook();
    if args.iter().any(|a| a == "--small") {
        data::SMALL.store(true, std::sync::atomic::Ordering::Relaxed);
    }
    #[cfg(feature = "alloc_world")]
    if args.iter().any(|a| a == "--env-fault") {
        c18::ENV_FAULT.store(true, std::sync::atomic::Ordering::Relaxed);
    }
    #[cfg(feature = "alloc_world")]
    if args.iter().any(|a| a == "--alloc-hard-fail") {
        c18::HARD_FAIL.store(true, std::sync::atomic::Ordering::Relaxed);
    }
    let code = match args[1].as_str() {
        "batch" => {
            let name = args.get(2).cloned().unwrap_or_default();
            let a = BatchArgs {
                seed: parse_u64(&arg_val(&args, "--seed").unwrap_or_else(|| "20260926".into())),
                start: parse_u64(&arg_val(&args, "--start").unwrap_or_else(|| "0".into())),
                count: parse_u64(&arg_val(&args, "--count").unwrap_or_else(|| "1000".into())),
                threads: parse_u64(&arg_val(&args, "--threads").unwrap_or_else(|| "1".into())) as usize,
                max_report: parse_u64(&arg_val(&args, "--max-report").unwrap_or_else(|| "3".into())) as usize,
                shrink_budget: parse_u64(&arg_val(&args, "--shrink-budget").unwrap_or_else(|| "4000".into())) as usize,
                progress_file: arg_val(&args, "--progress-file"),
                trace_runs: args.iter().any(|a| a == "--trace-runs"),
            };
            scenarios!(name.as_str(), s => batch_with(&s, &a))
        }
        "history" => {
            // prints the history of run (seed, index) without executing it (abort forensics)
            let name = args.get(2).cloned().unwrap_or_default();
            let seed = parse_u64(&arg_val(&args, "--seed").unwrap_or_else(|| "20260926".into()));
            let index = parse_u64(&arg_val(&args, "--index").unwrap_or_else(|| "0".into()));
            scenarios!(name.as_str(), s => history_with(&s, seed, index))
        }
        "replay" => {
            let path = args.get(2).cloned().unwrap_or_default();
            let text = std::fs::read_to_string(&path).unwrap_or_else(|e| harness_error(&format!("{path}: {e}")));
            let file: Value = serde_json::from_str(&text).unwrap_or_else(|e| harness_error(&format!("{path}: {e}")));
            let name = file["scenario"].as_str().unwrap_or("").to_string();
            scenarios!(name.as_str(), s => replay_with(&s, &file))
        }
        #[cfg(feature = "shuttle")]
        "shuttle" => {
            let seed = parse_u64(&arg_val(&args, "--seed").unwrap_or_else(|| "20260926".into()));
            let iters = parse_u64(&arg_val(&args, "--iters").unwrap_or_else(|| "1000".into())) as usize;
            let sched = arg_val(&args, "--sched").unwrap_or_else(|| "random".into());
            let dir = arg_val(&args, "--dir").unwrap_or_else(|| ".".into());
            let (code, rep) = c07shuttle::run(seed, iters, &sched, &dir);
            println!("{}", serde_json::to_string(&rep).unwrap());
            code
        }
        #[cfg(feature = "shuttle")]
        "shuttle-replay" => c07shuttle::replay(&arg_val(&args, "--schedule-file").unwrap_or_default()),
        "bigstream" => {
            let variant = parse_u64(&arg_val(&args, "--variant").unwrap_or_else(|| "1".into())) as u8;
            let pattern = data::unhex(&arg_val(&args, "--pattern").unwrap_or_else(|| "a40e".into())).unwrap_or_else(|e| harness_error(&e));
            let seed = parse_u64(&arg_val(&args, "--seed").unwrap_or_else(|| "1".into()));
            let single = parse_u64(&arg_val(&args, "--single-slice").unwrap_or_else(|| "0".into()));
            let (code, rep) = c11big::main(variant, &pattern, seed, if single > 0 { Some(single) } else { None });
            println!("{}", serde_json::to_string(&rep).unwrap());
            code
        }
        #[cfg(not(feature = "nostd"))]
        "hashfile" => {
            let dir = arg_val(&args, "--dir").unwrap_or_else(|| harness_error("--dir"));
            let seed = parse_u64(&arg_val(&args, "--seed").unwrap_or_else(|| "1".into()));
            let (code, rep) = c12file::main(&dir, seed);
            println!("{}", serde_json::to_string(&rep).unwrap());
            code
        }
        #[cfg(feature = "alloc_world")]
        "c12alloc" => {
            let g = |k: &str, d: &str| parse_u64(&arg_val(&args, k).unwrap_or_else(|| d.into()));
            let dir = arg_val(&args, "--dir").unwrap_or_else(|| harness_error("--dir"));
            if args.iter().any(|a| a == "--skew") {
                c18::SKEW.store(true, std::sync::atomic::Ordering::Relaxed);
            }
            let (code, rep) = c18::c12_alloc_fault(g("--api", "5") as u8, g("--min-size", "65536") as usize, g("--skip", "0"), g("--len", "300000") as usize, g("--seed", "1"), &dir);
            println!("{}", serde_json::to_string(&rep).unwrap());
            code
        }
        #[cfg(not(feature = "nostd"))]
        "hashfile-big" => {
            let dir = arg_val(&args, "--dir").unwrap_or_else(|| harness_error("--dir"));
            let variant = parse_u64(&arg_val(&args, "--variant").unwrap_or_else(|| "1".into())) as u8;
            let total = parse_u64(&arg_val(&args, "--total").unwrap_or_else(|| "4224281217".into()));
            let (code, rep) = c12file::big_file(&dir, variant, total);
            println!("{}", serde_json::to_string(&rep).unwrap());
            code
        }
        #[cfg(not(feature = "nostd"))]
        "hashfile-unpriv" => {
            let path = arg_val(&args, "--path").unwrap_or_else(|| "/etc/passwd".into());
            let (code, rep) = c12file::unprivileged(&path);
            println!("{}", serde_json::to_string(&rep).unwrap());
            code
        }
        #[cfg(not(feature = "nostd"))]
        "hashfile-one" => {
            println!("{}", c12file::one(&arg_val(&args, "--path").unwrap_or_else(|| harness_error("--path"))));
            0
        }
        "c03big" => {
            let variant = parse_u64(&arg_val(&args, "--variant").unwrap_or_else(|| "1".into())) as u8;
            let pattern = data::unhex(&arg_val(&args, "--pattern").unwrap_or_else(|| "a40e".into())).unwrap_or_else(|e| harness_error(&e));
            let seed = parse_u64(&arg_val(&args, "--seed").unwrap_or_else(|| "1".into()));
            let total = parse_u64(&arg_val(&args, "--total").unwrap_or_else(|| "1073754169".into()));
            let (code, rep) = c11big::c03_big(variant, &pattern, seed, total);
            println!("{}", serde_json::to_string(&rep).unwrap());
            code
        }
        #[cfg(not(feature = "nostd"))]
        "bigreader" => {
            let variant = parse_u64(&arg_val(&args, "--variant").unwrap_or_else(|| "1".into())) as u8;
            let pattern = data::unhex(&arg_val(&args, "--pattern").unwrap_or_else(|| "a40e".into())).unwrap_or_else(|e| harness_error(&e));
            let seed = parse_u64(&arg_val(&args, "--seed").unwrap_or_else(|| "1".into()));
            let total = parse_u64(&arg_val(&args, "--total").unwrap_or_else(|| "4224281216".into()));
            let (code, rep) = c11big::big_reader(variant, &pattern, seed, total, args.iter().any(|a| a == "--fail-at-end"));
            println!("{}", serde_json::to_string(&rep).unwrap());
            code
        }
        "race" => {
            // C07 (c): first-call race on real threads (meant to run under Miri and natively)
            let seed = parse_u64(&arg_val(&args, "--seed").unwrap_or_else(|| "20260926".into()));
            let threads = parse_u64(&arg_val(&args, "--threads").unwrap_or_else(|| "3".into())) as usize;
            let ops = parse_u64(&arg_val(&args, "--ops").unwrap_or_else(|| "4".into())) as usize;
            match c07::race(seed, threads, ops, args.iter().any(|a| a == "--fresh")) {
                Ok((d, _)) => {
                    println!("RACE-OK digest={d:016x}");
                    0
                }
                Err(e) => {
                    println!("RACE-VIOLATION {e}");
                    1
                }
            }
        }
        "transcript" => {
            // build-matrix probe: prints one line per op and a final digest line
            let seed = parse_u64(&arg_val(&args, "--seed").unwrap_or_else(|| "20260926".into()));
            let count = parse_u64(&arg_val(&args, "--count").unwrap_or_else(|| "1000".into()));
            let (lines, d) = c07::transcript(seed, count);
            let mut out = String::new();
            for l in &lines {
                out.push_str(l);
                out.push('\n');
            }
            out.push_str(&format!("DIGEST {d:016x}\n"));
            print!("{out}");
            0
        }
        "transcript-op" => {
            let seed = parse_u64(&arg_val(&args, "--seed").unwrap_or_else(|| "20260926".into()));
            let i = parse_u64(&arg_val(&args, "--index").unwrap_or_else(|| "0".into()));
            println!("{}", c07::transcript_op_json(seed, i));
            0
        }
        _ => harness_error("unknown command"),
    };
    std::process::exit(code);
}
