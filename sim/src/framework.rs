//! Run fan-out / merge, event-log digests, delta-debugging shrinker, replay.
//!
//! A *run* is: one seed -> one recorded history -> oracle verdict.  Everything a
//! run does is a pure function of its history; a history is a pure function of
//! (VERIF_SEED, scenario, run index).  Workers take interleaved indices and the
//! results are merged by index, so verdicts and digests do not depend on the
//! number of workers.

use crate::prng::{mix, tag_of, Fnv, Rng};
use serde_json::{json, Value};
use std::cell::RefCell;
use std::collections::BTreeMap;
use std::panic::{catch_unwind, AssertUnwindSafe};
use std::sync::atomic::{AtomicU64, Ordering};
use std::time::Instant;

#[derive(Clone, Debug)]
pub struct Violation {
    /// stable identifier of the oracle clause that failed (used for "same class" in shrinking
    /// and for known-finding matching)
    pub class: String,
    pub detail: String,
}

/// Counters: fault kinds that actually fired, probes reached, ops executed.
#[derive(Default, Clone, Debug)]
pub struct Stats {
    pub c: BTreeMap<&'static str, u64>,
}
impl Stats {
    #[inline]
    pub fn hit(&mut self, k: &'static str) {
        *self.c.entry(k).or_insert(0) += 1;
    }
    #[inline]
    pub fn add(&mut self, k: &'static str, n: u64) {
        *self.c.entry(k).or_insert(0) += n;
    }
    pub fn get(&self, k: &str) -> u64 {
        self.c.get(k).copied().unwrap_or(0)
    }
    pub fn merge(&mut self, o: &Stats) {
        for (k, v) in &o.c {
            *self.c.entry(k).or_insert(0) += v;
        }
    }
}

/// What executing one history produced.
pub struct Outcome {
    pub violation: Option<Violation>,
    /// digest of everything observable the run produced (results, errors); part of the event-log digest
    pub digest: u64,
    /// true when the history exercised something (>= 2 events and, in fault batches, >= 1 fired fault)
    pub nontrivial: bool,
    /// extra "state" keys reached (scenario-defined measure), small integers
    pub states: Vec<u64>,
}

pub trait Scenario: Sync {
    type Hist: Clone + Send + std::hash::Hash;
    fn name(&self) -> &'static str;
    fn property(&self) -> &'static str;
    fn generate(&self, rng: &mut Rng, index: u64) -> Self::Hist;
    /// Executes the history against the real code. Must not panic for harness reasons;
    /// panics of the code under test are caught inside and turned into outcomes.
    fn execute(&self, h: &Self::Hist, st: &mut Stats) -> Outcome;
    fn shrink(&self, h: &Self::Hist) -> Vec<Self::Hist>;
    fn to_json(&self, h: &Self::Hist) -> Value;
    fn from_json(&self, v: &Value) -> Result<Self::Hist, String>;
    /// human description of the non-triviality / distinctness rule
    fn rule(&self) -> &'static str;
}

/// true when the current batch / replay runs on a single worker (process-global seams may then be varied per run)
static SINGLE: std::sync::atomic::AtomicBool = std::sync::atomic::AtomicBool::new(true);
pub fn single_threaded() -> bool {
    SINGLE.load(Ordering::Relaxed)
}

thread_local! {
    static LAST_PANIC: RefCell<Option<String>> = const { RefCell::new(None) };
}

pub fn install_quiet_panic_hook() {
    std::panic::set_hook(Box::new(|info| {
        let loc = info
            .location()
            .map(|l| format!("{}:{}", l.file(), l.line()))
            .unwrap_or_default();
        let msg = if let Some(s) = info.payload().downcast_ref::<&str>() {
            (*s).to_string()
        } else if let Some(s) = info.payload().downcast_ref::<String>() {
            s.clone()
        } else {
            "<non-string panic payload>".to_string()
        };
        let _ = LAST_PANIC.try_with(|p| *p.borrow_mut() = Some(format!("{msg} @ {loc}")));
    }));
}

/// Runs `f`, returning Err(panic message with location) if it panicked.
pub fn guarded<T>(f: impl FnOnce() -> T) -> Result<T, String> {
    // try_with: this may run inside a thread-local destructor at thread exit (call-context faults)
    let _ = LAST_PANIC.try_with(|p| *p.borrow_mut() = None);
    match catch_unwind(AssertUnwindSafe(f)) {
        Ok(v) => Ok(v),
        Err(e) => {
            let recorded = LAST_PANIC.try_with(|p| p.borrow_mut().take()).ok().flatten();
            Err(recorded.unwrap_or_else(|| {
                if let Some(s) = e.downcast_ref::<&str>() {
                    (*s).to_string()
                } else if let Some(s) = e.downcast_ref::<String>() {
                    s.clone()
                } else {
                    "<panic>".to_string()
                }
            }))
        }
    }
}

/// Strips the line number etc. so that "same violation class" is robust while shrinking.
pub fn panic_class(msg: &str) -> String {
    // keep "<first 60 chars of message> @ file" ; drop ":line"
    let (m, loc) = match msg.rfind(" @ ") {
        Some(i) => (&msg[..i], &msg[i + 3..]),
        None => (msg, ""),
    };
    let file = loc.rsplit_once(':').map(|x| x.0).unwrap_or(loc);
    let file = file.rsplit('/').next().unwrap_or(file);
    let m: String = m.chars().filter(|c| !c.is_ascii_digit()).take(60).collect();
    format!("{m}@{file}")
}

pub struct BatchArgs {
    pub seed: u64,
    pub start: u64,
    pub count: u64,
    pub threads: usize,
    pub max_report: usize,
    pub shrink_budget: usize,
    /// write the index of the run being started to this file (abort forensics), single-thread only
    pub progress_file: Option<String>,
    /// print "RUN <index>" to stderr before each run (Miri forensics; stderr is unbuffered)
    pub trace_runs: bool,
}

pub fn run_seed_of<S: Scenario>(s: &S, seed: u64, index: u64) -> u64 {
    mix(seed, tag_of(s.name()), index)
}

struct WorkerOut<H> {
    stats: Stats,
    digests: Vec<u64>,
    nontrivial_digests: Vec<u64>,
    states: Vec<u64>,
    log: u64,
    violations: Vec<(u64, H, Violation)>,
    samples: Vec<(u64, H)>,
    nviol: u64,
}

pub fn run_batch<S: Scenario>(s: &S, a: &BatchArgs) -> Value {
    let t0 = Instant::now();
    let threads = a.threads.max(1);
    SINGLE.store(threads == 1, Ordering::Relaxed);
    let next = AtomicU64::new(0);
    const CHUNK: u64 = 64;
    let mut outs: Vec<WorkerOut<S::Hist>> = Vec::new();
    std::thread::scope(|sc| {
        let mut hs = Vec::new();
        for _ in 0..threads {
            hs.push(sc.spawn(|| {
                let mut w = WorkerOut {
                    stats: Stats::default(),
                    digests: Vec::new(),
                    nontrivial_digests: Vec::new(),
                    states: Vec::new(),
                    log: 0,
                    violations: Vec::new(),
                    samples: Vec::new(),
                    nviol: 0,
                };
                loop {
                    let c = next.fetch_add(1, Ordering::Relaxed);
                    let lo = c * CHUNK;
                    if lo >= a.count {
                        break;
                    }
                    let hi = (lo + CHUNK).min(a.count);
                    for k in lo..hi {
                        let index = a.start + k;
                        if let Some(p) = &a.progress_file {
                            let _ = std::fs::write(p, index.to_string());
                        }
                        if a.trace_runs {
                            eprintln!("RUN {index}");
                        }
                        let mut rng = Rng::new(run_seed_of(s, a.seed, index));
                        let h = s.generate(&mut rng, index);
                        let hd = crate::prng::digest_of(&h);
                        let o = s.execute(&h, &mut w.stats);
                        w.digests.push(hd);
                        if o.nontrivial {
                            w.nontrivial_digests.push(hd);
                        }
                        w.states.extend_from_slice(&o.states);
                        if w.states.len() > 1 << 16 {
                            w.states.sort_unstable();
                            w.states.dedup();
                        }
                        let mut f = Fnv::new();
                        f.write_u64(index);
                        f.write_u64(hd);
                        f.write_u64(o.digest);
                        f.write_u64(o.violation.is_some() as u64);
                        w.log = w.log.wrapping_add(f.finish());
                        // samples: deterministic choice independent of worker count
                        if k < 2 || (o.nontrivial && (hd % 4099 == 0) && w.samples.len() < 8) {
                            w.samples.push((index, h.clone()));
                        }
                        if let Some(v) = o.violation {
                            w.nviol += 1;
                            if w.violations.len() < a.max_report.max(1) * 4 {
                                w.violations.push((index, h, v));
                            }
                        }
                    }
                }
                w
            }));
        }
        for h in hs {
            outs.push(h.join().expect("worker thread must not panic (harness error)"));
        }
    });
    // merge
    let mut stats = Stats::default();
    let mut digests = Vec::new();
    let mut nt = Vec::new();
    let mut states = Vec::new();
    let mut log = 0u64;
    let mut viols = Vec::new();
    let mut samples = Vec::new();
    let mut nviol = 0;
    for o in outs {
        stats.merge(&o.stats);
        digests.extend(o.digests);
        nt.extend(o.nontrivial_digests);
        states.extend(o.states);
        log = log.wrapping_add(o.log);
        viols.extend(o.violations);
        samples.extend(o.samples);
        nviol += o.nviol;
    }
    digests.sort_unstable();
    digests.dedup();
    nt.sort_unstable();
    nt.dedup();
    states.sort_unstable();
    states.dedup();
    viols.sort_by_key(|v| v.0);
    samples.sort_by_key(|v| v.0);
    samples.truncate(5);
    // shrink the first few violations (by index), one per class
    let mut reported = Vec::new();
    let mut seen_classes: Vec<String> = Vec::new();
    for (index, h, v) in viols.into_iter() {
        if seen_classes.contains(&v.class) {
            continue;
        }
        if reported.len() >= a.max_report {
            break;
        }
        seen_classes.push(v.class.clone());
        let (mh, mv, steps) = minimise(s, &h, &v, a.shrink_budget);
        reported.push(json!({
            "index": index,
            "run_seed": run_seed_of(s, a.seed, index).to_string(),
            "class": mv.class,
            "detail": mv.detail,
            "history": s.to_json(&mh),
            "original_history": s.to_json(&h),
            "shrink_steps": steps,
        }));
    }
    let wall = t0.elapsed().as_secs_f64();
    let counters: BTreeMap<String, u64> = stats.c.iter().map(|(k, v)| (k.to_string(), *v)).collect();
    json!({
        "scenario": s.name(),
        "property": s.property(),
        "seed": a.seed.to_string(),
        "start": a.start,
        "evaluations": a.count,
        "distinct": digests.len(),
        "distinct_nontrivial": nt.len(),
        "distinct_states": states.len(),
        "state_keys": if states.len() <= 4096 { states.clone() } else { Vec::new() },
        "rule": s.rule(),
        "counters": counters,
        "log_digest": format!("{log:016x}"),
        "samples": samples.iter().map(|(i, h)| json!({"index": i, "history": s.to_json(h)})).collect::<Vec<_>>(),
        "violation_count": nviol,
        "violations": reported,
        "wall_s": wall,
        "threads": threads,
    })
}

/// Delta debugging over the recorded history: keep a candidate only if the same
/// violation class persists.
pub fn minimise<S: Scenario>(
    s: &S,
    h: &S::Hist,
    v: &Violation,
    budget: usize,
) -> (S::Hist, Violation, usize) {
    let mut cur = h.clone();
    let mut curv = v.clone();
    let mut steps = 0usize;
    let mut spent = 0usize;
    let mut scratch = Stats::default();
    'outer: loop {
        let cands = s.shrink(&cur);
        for c in cands {
            if spent >= budget {
                break 'outer;
            }
            spent += 1;
            let o = s.execute(&c, &mut scratch);
            if let Some(nv) = o.violation {
                if nv.class == curv.class {
                    cur = c;
                    curv = nv;
                    steps += 1;
                    continue 'outer;
                }
            }
        }
        break;
    }
    (cur, curv, steps)
}

/// Re-executes one replay file. Returns the JSON report; violated => "violation" key present.
pub fn replay<S: Scenario>(s: &S, file: &Value) -> Result<Value, String> {
    let h = s.from_json(&file["history"])?;
    let mut st = Stats::default();
    let o = s.execute(&h, &mut st);
    Ok(match o.violation {
        Some(v) => json!({"scenario": s.name(), "property": s.property(), "violation": {"class": v.class, "detail": v.detail}}),
        None => json!({"scenario": s.name(), "property": s.property(), "violation": Value::Null}),
    })
}
